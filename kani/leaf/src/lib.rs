//! Kani harnesses over the REAL leaf modules of opaque-ke (no extraction, no hooks):
//! `src/errors.rs` and `src/serialization/mod.rs` are compiled into this crate with `#[path]`.
#![allow(dead_code, unused_imports)]
#[path = "/repo/src/errors.rs"]
pub mod errors;
#[path = "/repo/src/serialization/mod.rs"]
pub mod serialization;

#[cfg(kani)]
mod proofs {
    use super::errors::utils::{check_slice_size, check_slice_size_atleast};
    use super::errors::{InternalError, ProtocolError};
    use super::serialization::*;
    use generic_array::typenum::{U0, U1, U2, U4};
    use generic_array::GenericArray;

    // ---------------------------------------------------------------- I2OSP: complete (loop-free, all usize)
    #[kani::proof]
    fn i2osp_u2_exact() {
        let n: usize = kani::any();
        match i2osp::<U2>(n) {
            Ok(out) => {
                assert!(n <= 65535);
                assert!(out[0] as usize == n / 256 && out[1] as usize == n % 256);
            }
            Err(e) => {
                assert!(n > 65535);
                assert!(matches!(e, ProtocolError::SerializationError));
            }
        }
    }
    #[kani::proof]
    fn i2osp_u1_exact() {
        let n: usize = kani::any();
        match i2osp::<U1>(n) {
            Ok(out) => { assert!(n <= 255); assert!(out[0] as usize == n); }
            Err(e) => { assert!(n > 255); assert!(matches!(e, ProtocolError::SerializationError)); }
        }
    }

    // ---------------------------------------------------------------- slice guards: complete (loop-free)
    #[kani::proof]
    fn check_slice_size_exact() {
        let buf = [0u8; 16];
        let l: usize = kani::any();
        kani::assume(l <= 16);
        let want: usize = kani::any();
        let r = check_slice_size::<core::convert::Infallible>(&buf[..l], want, "x");
        match r {
            Ok(s) => { assert!(l == want); assert!(s.len() == l); }
            Err(e) => { assert!(l != want); assert!(matches!(e, InternalError::SizeError { .. })); }
        }
        let r2 = check_slice_size_atleast(&buf[..l], want, "x");
        assert!(r2.is_ok() == (l >= want));
    }

    // ---------------------------------------------------------------- Input: flattening == I2OSP(len) || data   (content symbolic, LENGTH BOUNDED <= 6)
    const MAXLEN: usize = 6;
    fn flatten<'a>(it: impl Iterator<Item = &'a [u8]>, out: &mut [u8; 16]) -> usize {
        let mut n = 0;
        for chunk in it {
            for b in chunk {
                if n < 16 { out[n] = *b; }
                n += 1;
            }
        }
        n
    }
    #[kani::proof]
    #[kani::unwind(10)]
    fn input_from_iter_bounded() {
        let data: [u8; MAXLEN] = kani::any();
        let l: usize = kani::any();
        kani::assume(l <= MAXLEN);
        let inp = Input::<U2>::from(&data[..l]).unwrap();
        let mut out = [0u8; 16];
        let n = flatten(inp.iter(), &mut out);
        assert!(n == 2 + l);
        assert!(out[0] == 0 && out[1] as usize == l);
        let i: usize = kani::any();
        kani::assume(i < l);
        assert!(out[2 + i] == data[i]);
        // to_array_2 agrees with iter, and its `unreachable!()` arm is unreachable for this constructor
        let a = inp.to_array_2();
        assert!(a[0].len() == 2 && a[0][1] as usize == l && a[1].len() == l);
    }
    #[kani::proof]
    #[kani::unwind(10)]
    fn input_owned_iter_bounded() {
        let data: [u8; 4] = kani::any();
        let ga: GenericArray<u8, U4> = GenericArray::from(data);
        let inp = Input::<U2, U4>::from_owned(ga).unwrap();
        let mut out = [0u8; 16];
        let n = flatten(inp.iter(), &mut out);
        assert!(n == 6 && out[0] == 0 && out[1] == 4);
        let i: usize = kani::any();
        kani::assume(i < 4);
        assert!(out[2 + i] == data[i]);
        let a = inp.to_array_2();
        assert!(a[1].len() == 4 && a[1][i] == data[i]);
    }
    #[kani::proof]
    #[kani::unwind(10)]
    fn input_label_arrays_bounded() {
        let a: [u8; 3] = kani::any();
        let b: [u8; 3] = kani::any();
        let (la, lb): (usize, usize) = (kani::any(), kani::any());
        kani::assume(la <= 3 && lb <= 3);
        let inp = Input::<U1>::from_label(&a[..la], &b[..lb]).unwrap();
        let arr = inp.to_array_3();   // its `unreachable!()` arm is unreachable for this constructor
        assert!(arr[0].len() == 1 && arr[0][0] as usize == la + lb);
        assert!(arr[1].len() == la && arr[2].len() == lb);
        let mut out = [0u8; 16];
        let n = flatten(inp.iter(), &mut out);
        assert!(n == 1 + la + lb && out[0] as usize == la + lb);
        let i: usize = kani::any();
        kani::assume(i < la);
        assert!(out[1 + i] == a[i]);
        let j: usize = kani::any();
        kani::assume(j < lb);
        assert!(out[1 + la + j] == b[j]);
    }
    #[kani::proof]
    fn input_from_refuses_long() {
        // the length check is I2OSP's: complete over all lengths (no data is touched on the error path)
        let n: usize = kani::any();
        kani::assume(n > 65535);
        assert!(i2osp::<U2>(n).is_err());
    }

    // ---------------------------------------------------------------- chain_iter / update_iter preserve order and content (<= 3 chunks of <= 2 bytes: BOUNDED)
    #[derive(Clone)]
    struct Rec { buf: [u8; 8], n: usize }
    impl digest::Update for Rec {
        fn update(&mut self, data: &[u8]) { for b in data { if self.n < 8 { self.buf[self.n] = *b; } self.n += 1; } }
    }
    #[kani::proof]
    #[kani::unwind(5)]
    fn chain_iter_order_bounded() {
        let x: [u8; 2] = kani::any();
        let y: [u8; 2] = kani::any();
        let z: [u8; 1] = kani::any();
        let r = Rec { buf: [0; 8], n: 0 };
        let r = r.chain_iter([&x[..], &y[..], &z[..]].into_iter());
        assert!(r.n == 5);
        assert!(r.buf[0] == x[0] && r.buf[1] == x[1] && r.buf[2] == y[0] && r.buf[3] == y[1] && r.buf[4] == z[0]);
    }
}
