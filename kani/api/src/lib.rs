//! Kani harnesses over the REAL KeGroup implementations of opaque-ke (curve25519.rs, ristretto255.rs) through the public API.
//! Dependency arithmetic that is out of reach (point decompression, scalar multiplication) is replaced by STUBS THAT PLAY THE
//! DEPENDENCY'S CONTRACT (may fail / may return the identity / may return an arbitrary point); `zeroize::optimization_barrier`
//! (inline asm) is stubbed by a no-op.  Each stub is an assumption and is listed in the evidence.
#![allow(dead_code, unused_imports)]
use opaque_ke::key_exchange::group::KeGroup;
use opaque_ke::*;

#[cfg(kani)]
mod proofs {
    use super::*;
    use curve25519_dalek::montgomery::MontgomeryPoint;
    use curve25519_dalek::ristretto::{CompressedRistretto, RistrettoPoint};
    use curve25519_dalek::scalar::Scalar;
    use curve25519_dalek::traits::Identity;
    use generic_array::GenericArray;

    pub fn noop_barrier<T: ?Sized>(_val: &T) {}

    /// RFC 7748 section 5 decodeScalar25519, written independently in the harness
    fn clamp_spec(mut b: [u8; 32]) -> [u8; 32] { b[0] &= 248; b[31] &= 127; b[31] |= 64; b }

    // ------------------------------------------------------------ Curve25519 scalars: COMPLETE over all 2^256 inputs (loop-free)
    #[kani::proof]
    #[kani::stub(zeroize::optimization_barrier, noop_barrier)]
    fn x25519_sk_decode() {
        let b: [u8; 32] = kani::any();
        match <Curve25519 as KeGroup>::deserialize_sk(&b) {
            Ok(sk) => {
                assert!(sk == b);                       // canonical: accepted bytes are the scalar
                assert!(clamp_spec(b) == b);            // only clamped scalars
                assert!(b != [0u8; 32]);                // never zero
                assert!(!bool::from(<Curve25519 as KeGroup>::is_zero_scalar(sk)));
                assert!(<Curve25519 as KeGroup>::serialize_sk(sk).as_slice() == &b[..]);   // round trip
            }
            Err(_) => assert!(clamp_spec(b) != b),      // complete: every clamped scalar is accepted (clamped => bit 254 set => non-zero)
        }
    }
    /// C11 only (validity, not canonicity): an accepted Curve25519 private key is never the zero scalar, whatever spelling was accepted
    #[kani::proof]
    #[kani::stub(zeroize::optimization_barrier, noop_barrier)]
    fn x25519_sk_nonzero() {
        let b: [u8; 32] = kani::any();
        if let Ok(sk) = <Curve25519 as KeGroup>::deserialize_sk(&b) {
            assert!(sk != [0u8; 32]);
            assert!(!bool::from(<Curve25519 as KeGroup>::is_zero_scalar(sk)));
        }
    }
    #[kani::proof]
    #[kani::unwind(34)]
    #[kani::stub(zeroize::optimization_barrier, noop_barrier)]
    #[kani::stub(curve25519_dalek::montgomery::MontgomeryPoint::mul_clamped, mul_clamped_stub)]
    fn x25519_sk_decode_length() {
        // any slice whose length is not 32 is refused
        let buf: [u8; 40] = kani::any();
        let l: usize = kani::any();
        kani::assume(l <= 40 && l != 32);
        assert!(<Curve25519 as KeGroup>::deserialize_sk(&buf[..l]).is_err());
        assert!(<Curve25519 as KeGroup>::deserialize_pk(&buf[..l]).is_err());
    }
    /// DeriveDiffieHellmanKeyPair for Curve25519 == RFC 7748 clamp of the seed, always a valid non-zero private key
    #[kani::proof]
    #[kani::stub(zeroize::optimization_barrier, noop_barrier)]
    fn x25519_derive_is_clamp() {
        let seed: [u8; 32] = kani::any();
        let sk = <Curve25519 as KeGroup>::derive_auth_keypair::<opaque_ke::Ristretto255>(GenericArray::from(seed)).unwrap();
        assert!(sk == clamp_spec(seed));
        assert!(!bool::from(<Curve25519 as KeGroup>::is_zero_scalar(sk)));
        // and it survives a save / reload
        assert!(<Curve25519 as KeGroup>::deserialize_sk(&<Curve25519 as KeGroup>::serialize_sk(sk)).unwrap() == sk);
    }

    // ------------------------------------------------------------ Curve25519 public keys
    /// canonical + identity: accepted bytes re-encode to themselves; the all-zero encoding is refused (real dalek field comparison;
    /// the scalar multiplication of the small-order filter is played by its contract, see `mul_clamped_stub`)
    #[kani::proof]
    #[kani::unwind(34)]
    #[kani::stub(zeroize::optimization_barrier, noop_barrier)]
    #[kani::stub(curve25519_dalek::montgomery::MontgomeryPoint::mul_clamped, mul_clamped_stub)]
    fn x25519_pk_decode_identity() {
        let b: [u8; 32] = kani::any();
        let r = <Curve25519 as KeGroup>::deserialize_pk(&b);
        if b == [0u8; 32] { assert!(r.is_err()); }
        if let Ok(pk) = r {
            assert!(<Curve25519 as KeGroup>::serialize_pk(pk).as_slice() == &b[..]);
        }
    }

    /// the small-order points of Curve25519 and its twist (RFC 7748 section 6.1 / "May the Fourth" list), canonical u-coordinates
    const SMALL_ORDER: [[u8; 32]; 7] = [
        [0; 32],
        [1, 0, 0, 0, 0, 0, 0, 0, 0, 0, 0, 0, 0, 0, 0, 0, 0, 0, 0, 0, 0, 0, 0, 0, 0, 0, 0, 0, 0, 0, 0, 0],
        [0xe0, 0xeb, 0x7a, 0x7c, 0x3b, 0x41, 0xb8, 0xae, 0x16, 0x56, 0xe3, 0xfa, 0xf1, 0x9f, 0xc4, 0x6a, 0xda, 0x09, 0x8d, 0xeb, 0x9c, 0x32, 0xb1, 0xfd, 0x86, 0x62, 0x05, 0x16, 0x5f, 0x49, 0xb8, 0x00],
        [0x5f, 0x9c, 0x95, 0xbc, 0xa3, 0x50, 0x8c, 0x24, 0xb1, 0xd0, 0xb1, 0x55, 0x9c, 0x83, 0xef, 0x5b, 0x04, 0x44, 0x5c, 0xc4, 0x58, 0x1c, 0x8e, 0x86, 0xd8, 0x22, 0x4e, 0xdd, 0xd0, 0x9f, 0x11, 0x57],
        [0xec, 0xff, 0xff, 0xff, 0xff, 0xff, 0xff, 0xff, 0xff, 0xff, 0xff, 0xff, 0xff, 0xff, 0xff, 0xff, 0xff, 0xff, 0xff, 0xff, 0xff, 0xff, 0xff, 0xff, 0xff, 0xff, 0xff, 0xff, 0xff, 0xff, 0xff, 0x7f],   // p - 1
        [0xed, 0xff, 0xff, 0xff, 0xff, 0xff, 0xff, 0xff, 0xff, 0xff, 0xff, 0xff, 0xff, 0xff, 0xff, 0xff, 0xff, 0xff, 0xff, 0xff, 0xff, 0xff, 0xff, 0xff, 0xff, 0xff, 0xff, 0xff, 0xff, 0xff, 0xff, 0x7f],   // p  (== 0)
        [0xee, 0xff, 0xff, 0xff, 0xff, 0xff, 0xff, 0xff, 0xff, 0xff, 0xff, 0xff, 0xff, 0xff, 0xff, 0xff, 0xff, 0xff, 0xff, 0xff, 0xff, 0xff, 0xff, 0xff, 0xff, 0xff, 0xff, 0xff, 0xff, 0xff, 0xff, 0x7f],   // p + 1 (== 1)
    ];
    fn is_small_order_encoding(b: &[u8; 32]) -> bool {
        // bit 255 is masked by the decoder, so both spellings of each value count
        let mut c = *b;
        c[31] &= 0x7f;
        let mut hit = false;
        let mut i = 0;
        while i < 7 { if c == SMALL_ORDER[i] { hit = true; } i += 1; }
        hit
    }
    /// C10 / C04 (canonicity only): whatever public-key bytes are accepted are the bytes that enter transcripts and re-encodings
    #[kani::proof]
    #[kani::unwind(34)]
    #[kani::stub(zeroize::optimization_barrier, noop_barrier)]
    #[kani::stub(curve25519_dalek::montgomery::MontgomeryPoint::mul_clamped, mul_clamped_stub)]
    fn x25519_pk_canonical() {
        let b: [u8; 32] = kani::any();
        if let Ok(pk) = <Curve25519 as KeGroup>::deserialize_pk(&b) {
            assert!(<Curve25519 as KeGroup>::serialize_pk(pk).as_slice() == &b[..]);
        }
    }

    /// C01 / C19 (completeness): every 32-byte string that is not one of the small-order encodings is accepted - an honest public key
    /// (never small-order: clamped scalar times the base point) is never refused, whatever its bytes
    #[kani::proof]
    #[kani::unwind(34)]
    #[kani::stub(zeroize::optimization_barrier, noop_barrier)]
    #[kani::stub(curve25519_dalek::montgomery::MontgomeryPoint::mul_clamped, mul_clamped_stub)]
    fn x25519_pk_accepts_valid() {
        let b: [u8; 32] = kani::any();
        kani::assume(!is_small_order_encoding(&b));
        assert!(<Curve25519 as KeGroup>::deserialize_pk(&b).is_ok());
    }

    /// contract of dalek's `mul_clamped` played by the stub: a clamped scalar is a multiple of the cofactor 8, so the product with a
    /// small-order point is the identity; for any other point it is some non-identity point (arbitrary here)
    fn mul_clamped_stub(p: MontgomeryPoint, _bytes: [u8; 32]) -> MontgomeryPoint {
        if is_small_order_encoding(&p.0) { MontgomeryPoint::identity() } else {
            let mut out: [u8; 32] = kani::any();
            out[31] &= 0x7f;
            kani::assume(out != [0u8; 32] && !is_small_order_encoding(&out));
            MontgomeryPoint(out)
        }
    }
    /// C11: small-order Curve25519 points (canonical and non-reduced spellings, with and without bit 255) are never accepted
    #[kani::proof]
    #[kani::unwind(34)]
    #[kani::stub(zeroize::optimization_barrier, noop_barrier)]
    #[kani::stub(curve25519_dalek::montgomery::MontgomeryPoint::mul_clamped, mul_clamped_stub)]
    fn x25519_pk_no_small_order() {
        let b: [u8; 32] = kani::any();
        kani::assume(is_small_order_encoding(&b));
        kani::cover!(b[0] == 1, "u = 1 reachable");
        kani::cover!(b[31] == 0xff, "bit-255 spelling reachable");
        assert!(<Curve25519 as KeGroup>::deserialize_pk(&b).is_err());
    }

    // ------------------------------------------------------------ ristretto255
    /// assumed contract of dalek's decompress: may fail; may return the identity (for the all-zero encoding) or a non-identity point
    fn decompress_stub(_c: &CompressedRistretto) -> Option<RistrettoPoint> {
        let k: u8 = kani::any();
        match k % 3 { 0 => None, 1 => Some(RistrettoPoint::identity()), _ => Some(curve25519_dalek::constants::RISTRETTO_BASEPOINT_POINT) }
    }
    #[kani::proof]
    #[kani::stub(zeroize::optimization_barrier, noop_barrier)]
    #[kani::stub(curve25519_dalek::ristretto::CompressedRistretto::decompress, decompress_stub)]
    fn ristretto_pk_decode_rejects_identity() {
        let b: [u8; 32] = kani::any();
        if let Ok(pk) = <Ristretto255 as KeGroup>::deserialize_pk(&b) {
            assert!(pk != RistrettoPoint::identity());
        }
    }
    #[kani::proof]
    #[kani::stub(zeroize::optimization_barrier, noop_barrier)]
    #[kani::stub(curve25519_dalek::ristretto::CompressedRistretto::decompress, decompress_stub)]
    fn ristretto_decode_length() {
        let buf: [u8; 40] = kani::any();
        let l: usize = kani::any();
        kani::assume(l <= 40 && l != 32);
        assert!(<Ristretto255 as KeGroup>::deserialize_pk(&buf[..l]).is_err());
        assert!(<Ristretto255 as KeGroup>::deserialize_sk(&buf[..l]).is_err());
    }
    /// C10 (canonicity): accepted bytes re-encode to themselves (real dalek canonical check and reduction) - hence are below the group order
    #[kani::proof]
    #[kani::stub(zeroize::optimization_barrier, noop_barrier)]
    fn ristretto_sk_decode() {
        let b: [u8; 32] = kani::any();
        match <Ristretto255 as KeGroup>::deserialize_sk(&b) {
            Ok(sk) => {
                assert!(<Ristretto255 as KeGroup>::serialize_sk(sk).as_slice() == &b[..]);
                assert!(b[31] <= 0x10);        // below the group order l = 2^252 + 27742...: the top byte of a canonical scalar is at most 0x10
            }
            Err(_) => {}
        }
    }
    /// C11 (validity): zero is refused, and so is every encoding whose top byte exceeds that of the group order
    #[kani::proof]
    #[kani::stub(zeroize::optimization_barrier, noop_barrier)]
    fn ristretto_sk_valid() {
        let b: [u8; 32] = kani::any();
        match <Ristretto255 as KeGroup>::deserialize_sk(&b) {
            Ok(sk) => {
                assert!(b != [0u8; 32]);
                assert!(!bool::from(<Ristretto255 as KeGroup>::is_zero_scalar(sk)));
                assert!(b[31] <= 0x10);
            }
            Err(_) => {}
        }
    }
}
