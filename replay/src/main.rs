//! vx-replay: runs the real opaque-ke (production build) on concrete inputs, for all 20 suites.
//!   vx-replay witness <generator>    -> JSON {"found": bool, "witness": {...}, "tried": n}
//!   vx-replay conformance            -> JSON, sampling of assumed dependency contracts
#![allow(clippy::all, non_camel_case_types, dead_code, unused_macros, unused_variables)]
use opaque_ke::errors::ProtocolError;
use opaque_ke::key_exchange::tripledh::TripleDh;
use opaque_ke::ksf::Identity;
use opaque_ke::*;
use rand::rngs::StdRng;
use rand::{RngCore, SeedableRng};
use generic_array::typenum::Unsigned as _;
use serde_json::{json, Value};

macro_rules! suite {
    ($name:ident, $oprf:ty, $ke:ty) => {
        pub struct $name;
        impl CipherSuite for $name {
            type OprfCs = $oprf;
            type KeGroup = $ke;
            type KeyExchange = TripleDh;
            type Ksf = Identity;
        }
    };
}
suite!(R_R, opaque_ke::Ristretto255, opaque_ke::Ristretto255);
suite!(R_P256, opaque_ke::Ristretto255, p256::NistP256);
suite!(R_P384, opaque_ke::Ristretto255, p384::NistP384);
suite!(R_P521, opaque_ke::Ristretto255, p521::NistP521);
suite!(R_X, opaque_ke::Ristretto255, opaque_ke::Curve25519);
suite!(P256_R, p256::NistP256, opaque_ke::Ristretto255);
suite!(P256_P256, p256::NistP256, p256::NistP256);
suite!(P256_P384, p256::NistP256, p384::NistP384);
suite!(P256_P521, p256::NistP256, p521::NistP521);
suite!(P256_X, p256::NistP256, opaque_ke::Curve25519);
suite!(P384_R, p384::NistP384, opaque_ke::Ristretto255);
suite!(P384_P256, p384::NistP384, p256::NistP256);
suite!(P384_P384, p384::NistP384, p384::NistP384);
suite!(P384_P521, p384::NistP384, p521::NistP521);
suite!(P384_X, p384::NistP384, opaque_ke::Curve25519);
suite!(P521_R, p521::NistP521, opaque_ke::Ristretto255);
suite!(P521_P256, p521::NistP521, p256::NistP256);
suite!(P521_P384, p521::NistP521, p384::NistP384);
suite!(P521_P521, p521::NistP521, p521::NistP521);
suite!(P521_X, p521::NistP521, opaque_ke::Curve25519);

macro_rules! all_suites {
    ($m:ident, $acc:expr) => {
        $m!(R_R, $acc); $m!(R_P256, $acc); $m!(R_P384, $acc); $m!(R_P521, $acc); $m!(R_X, $acc);
        $m!(P256_R, $acc); $m!(P256_P256, $acc); $m!(P256_P384, $acc); $m!(P256_P521, $acc); $m!(P256_X, $acc);
        $m!(P384_R, $acc); $m!(P384_P256, $acc); $m!(P384_P384, $acc); $m!(P384_P521, $acc); $m!(P384_X, $acc);
        $m!(P521_R, $acc); $m!(P521_P256, $acc); $m!(P521_P384, $acc); $m!(P521_P521, $acc); $m!(P521_X, $acc);
    };
}

fn hx(b: &[u8]) -> String { if b.len() > 96 { format!("{}..({} bytes)", hex::encode(&b[..48]), b.len()) } else { hex::encode(b) } }

pub struct Acc { pub tried: u64, pub found: Vec<Value> }
impl Acc {
    fn hit(&mut self, suite: &str, what: &str, detail: Value) {
        if self.found.len() < 256 { self.found.push(json!({"suite": suite, "what": what, "detail": detail})); }
    }
}

#[derive(Clone)]
struct Params<'a> { pw: &'a [u8], cred: &'a [u8], idu: Option<&'a [u8]>, ids: Option<&'a [u8]>, ctx: Option<&'a [u8]> }

/// one registration; returns (setup, password file, export key, server public key bytes)
macro_rules! register {
    ($cs:ty, $rng:expr, $p:expr) => {{
        let setup = ServerSetup::<$cs>::new($rng);
        let c = ClientRegistration::<$cs>::start($rng, $p.pw)?;
        let s = ServerRegistration::<$cs>::start(&setup, c.message, $p.cred)?;
        let f = c.state.finish($rng, $p.pw, s.message, ClientRegistrationFinishParameters::new(Identifiers { client: $p.idu, server: $p.ids }, None))?;
        let file = ServerRegistration::<$cs>::finish(f.message);
        (setup, file, f.export_key, f.server_s_pk)
    }};
}
/// one login against (setup, file) with possibly different parameters on the two sides
macro_rules! login {
    ($cs:ty, $rng:expr, $setup:expr, $file:expr, $pw:expr, $cred:expr, $srv:expr, $cli:expr) => {{
        let c = ClientLogin::<$cs>::start($rng, $pw)?;
        let s = ServerLogin::<$cs>::start($rng, $setup, $file, c.message, $cred,
            ServerLoginStartParameters { context: $srv.ctx, identifiers: Identifiers { client: $srv.idu, server: $srv.ids } })?;
        let cf = c.state.finish($pw, s.message, ClientLoginFinishParameters::new($cli.ctx, Identifiers { client: $cli.idu, server: $cli.ids }, None));
        (s.state, cf)
    }};
}

/// a tape of `len` pseudo-random bytes: `fill_bytes` panics when it runs dry, `try_fill_bytes` returns an error; counts what was asked for
pub struct FiniteTape { inner: StdRng, left: usize, pub requested: usize }
impl FiniteTape { pub fn new(seed: u64, len: usize) -> Self { FiniteTape { inner: StdRng::seed_from_u64(seed), left: len, requested: 0 } } }
impl rand::RngCore for FiniteTape {
    fn next_u32(&mut self) -> u32 { let mut b = [0u8; 4]; self.fill_bytes(&mut b); u32::from_le_bytes(b) }
    fn next_u64(&mut self) -> u64 { let mut b = [0u8; 8]; self.fill_bytes(&mut b); u64::from_le_bytes(b) }
    fn fill_bytes(&mut self, dest: &mut [u8]) { self.try_fill_bytes(dest).expect("tape exhausted") }
    fn try_fill_bytes(&mut self, dest: &mut [u8]) -> Result<(), rand::Error> {
        self.requested += dest.len();
        if dest.len() > self.left { self.left = 0; return Err(rand::Error::new("tape exhausted")); }
        self.left -= dest.len(); self.inner.fill_bytes(dest); Ok(())
    }
}
impl rand::CryptoRng for FiniteTape {}
/// a generator whose fallible interface fails at its k-th call (leaving the buffer untouched) while the infallible one keeps working - a
/// non-blocking entropy source that is "not ready".  Code that asks through `try_fill_bytes` must hand the error on, not carry on with the buffer
pub struct FlakyTry { inner: StdRng, k: u32, calls: u32, pub failed: bool }
impl FlakyTry { pub fn new(seed: u64, k: u32) -> Self { FlakyTry { inner: StdRng::seed_from_u64(seed), k, calls: 0, failed: false } } }
impl rand::RngCore for FlakyTry {
    fn next_u32(&mut self) -> u32 { self.inner.next_u32() }
    fn next_u64(&mut self) -> u64 { self.inner.next_u64() }
    fn fill_bytes(&mut self, dest: &mut [u8]) { self.inner.fill_bytes(dest) }
    fn try_fill_bytes(&mut self, dest: &mut [u8]) -> Result<(), rand::Error> {
        self.calls += 1;
        if self.calls == self.k { self.failed = true; return Err(rand::Error::new("entropy source not ready")); }
        self.inner.fill_bytes(dest); Ok(())
    }
}
impl rand::CryptoRng for FlakyTry {}

// ------------------------------------------------------------------------------------------------ generators
macro_rules! gen_c01 {
    ($cs:ident, $acc:expr) => {{
        let acc: &mut Acc = $acc;
        let big = vec![0xa5u8; 65535];
        let pk_len_id = vec![7u8; 256];
        let cases: Vec<Params> = vec![
            Params { pw: b"", cred: b"", idu: None, ids: None, ctx: None },
            Params { pw: b"pw\0\xff", cred: b"user@example", idu: Some(b"alice"), ids: Some(b"server"), ctx: Some(b"ctx") },
            Params { pw: &big, cred: &big[..300], idu: Some(&pk_len_id), ids: Some(b""), ctx: Some(&big[..1000]) },
        ];
        for (i, p) in cases.iter().enumerate() {
            let mut rng = StdRng::seed_from_u64(1000 + i as u64);
            acc.tried += 1;
            let r = (|| -> Result<(), ProtocolError> {
                let (setup, file, export, spk) = register!($cs, &mut rng, p);
                let (sstate, cf) = login!($cs, &mut rng, &setup, Some(file), p.pw, p.cred, p, p);
                let cf = cf?;
                let sf = sstate.finish(cf.message)?;
                if sf.session_key != cf.session_key { acc.hit(stringify!($cs), "session keys differ", json!({"case": i})); }
                if cf.export_key != export { acc.hit(stringify!($cs), "export key differs", json!({"case": i})); }
                if cf.server_s_pk != spk || &spk != setup.keypair().public() { acc.hit(stringify!($cs), "server key differs", json!({"case": i})); }
                Ok(())
            })();
            if let Err(e) = r { acc.hit(stringify!($cs), "honest run failed", json!({"case": i, "pw_len": p.pw.len(), "error": format!("{:?}", e)})); }
        }
    }};
}
macro_rules! gen_c02 {
    ($cs:ident, $acc:expr) => {{
        let acc: &mut Acc = $acc;
        let long_a = vec![0x61u8; 65535];
        let mut long_b = long_a.clone(); long_b[65534] ^= 1;
        let pairs: Vec<(&[u8], &[u8])> = vec![(b"password", b"passwore"), (b"password", b"passwor"), (b"password", b"password\0"), (b"", b"\0"), (b"Password", b"password"), (b"pw ", b"pw"),
            (&long_a, &long_b), (&long_a, &long_a[..65534]), (&long_a[..65534], &long_a)];
        for (i, (good, bad)) in pairs.iter().enumerate() {
            let mut rng = StdRng::seed_from_u64(2000 + i as u64);
            acc.tried += 1;
            let p = Params { pw: good, cred: b"id", idu: None, ids: None, ctx: None };
            let r = (|| -> Result<(), ProtocolError> {
                let (setup, file, _e, _k) = register!($cs, &mut rng, p);
                let (_s, cf) = login!($cs, &mut rng, &setup, Some(file), *bad, p.cred, p, p);
                match cf {
                    Ok(_) => acc.hit(stringify!($cs), "wrong password logged in", json!({"registered": hx(good), "login": hx(bad)})),
                    Err(ProtocolError::InvalidLoginError) => {}
                    Err(e) => acc.hit(stringify!($cs), "wrong password: error is not InvalidLoginError", json!({"error": format!("{:?}", e)})),
                }
                Ok(())
            })();
            if let Err(e) = r { acc.hit(stringify!($cs), "setup failed", json!({"error": format!("{:?}", e)})); }
        }
        // passwords beyond what the OPRF can encode (> 65535 bytes) are refused on the unchanged tree.  Should a tree accept one at registration,
        // everything it could have been folded into is tried as a wrong password: prefixes at the encodable limit, digests (the HMAC long-key
        // idiom) in raw and hex form, one more byte
        {
            use sha2::Digest as _;
            for n in [65536usize, 70000] {
                let longp: Vec<u8> = (0..n as u32).map(|i| (i % 253) as u8).collect();
                let mut cands: Vec<(String, Vec<u8>)> = vec![("first 65535 bytes".into(), longp[..65535].to_vec()), ("first 65534 bytes".into(), longp[..65534].to_vec()), ("first 65533 bytes".into(), longp[..65533].to_vec()),
                    ("SHA-256".into(), sha2::Sha256::digest(&longp).to_vec()), ("SHA-384".into(), sha2::Sha384::digest(&longp).to_vec()), ("SHA-512".into(), sha2::Sha512::digest(&longp).to_vec())];
                let hexes: Vec<(String, Vec<u8>)> = cands[3..].iter().map(|(k, v)| (format!("hex {}", k), hx(v).into_bytes())).collect();
                cands.extend(hexes);
                let mut one_more = longp.clone(); one_more.push(0); cands.push(("one more byte".into(), one_more));
                let mut rng = StdRng::seed_from_u64(2900 + n as u64);
                let p = Params { pw: &longp, cred: b"id", idu: None, ids: None, ctx: None };
                acc.tried += 1;
                let reg = (|| -> Result<_, ProtocolError> { let (setup, file, _e, _k) = register!($cs, &mut rng, p); Ok((setup, file)) })();
                if let Ok((setup, file)) = reg {
                    for (what, bad) in cands.iter() {
                        acc.tried += 1;
                        let r = (|| -> Result<bool, ProtocolError> { let (_s, cf) = login!($cs, &mut rng, &setup, Some(file.clone()), &bad[..], p.cred, p, p); Ok(cf.is_ok()) })();
                        if let Ok(true) = r { acc.hit(stringify!($cs), "wrong password logged in (over-long registered password)", json!({"registered_len": n, "login_with": what, "login_len": bad.len()})); }
                    }
                }
            }
        }
    }};
}
macro_rules! gen_c03 {
    ($cs:ident, $acc:expr) => {{
        let acc: &mut Acc = $acc;
        let mut rng = StdRng::seed_from_u64(3000);
        let p = Params { pw: b"pw", cred: b"id", idu: None, ids: None, ctx: None };
        let r = (|| -> Result<(), ProtocolError> {
            let (setup, file, _e, _k) = register!($cs, &mut rng, p);
            let (sstate, cf) = login!($cs, &mut rng, &setup, Some(file.clone()), p.pw, p.cred, p, p);
            let good = cf?.message.serialize();
            let (_s2, cf2) = login!($cs, &mut rng, &setup, Some(file), p.pw, p.cred, p, p);
            let other = cf2?.message.serialize();
            let st_bytes = sstate.serialize();
            let mut cands: Vec<Vec<u8>> = vec![other.to_vec(), vec![0u8; good.len()], vec![0xffu8; good.len()]];
            for i in 0..good.len() { for bit in 0..8 { let mut m = good.to_vec(); m[i] ^= 1 << bit; cands.push(m); } }
            // alterations of several bytes (same mask in two positions; complementary masks in three) and random strings
            for i in 0..good.len().min(12) { for j in 0..i { for mask in [0x01u8, 0x80, 0xff] { let mut m = good.to_vec(); m[i] ^= mask; m[j] ^= mask; cands.push(m); } } }
            for i in 2..good.len().min(10) { let mut m = good.to_vec(); m[i] ^= 0x0f; m[i - 1] ^= 0xf0; m[i - 2] ^= 0xff; cands.push(m); }
            for _ in 0..1500 { let mut m = vec![0u8; good.len()]; rng.fill_bytes(&mut m); cands.push(m); }
            for m in cands.iter() {
                acc.tried += 1;
                let st = ServerLogin::<$cs>::deserialize(&st_bytes)?;
                if let Ok(msg) = CredentialFinalization::<$cs>::deserialize(m) {
                    match st.finish(msg) {
                        Ok(_) => acc.hit(stringify!($cs), "server accepted a non-matching finalization", json!({"genuine": hx(&good), "given": hx(m)})),
                        Err(ProtocolError::InvalidLoginError) => {}
                        Err(e) => acc.hit(stringify!($cs), "error is not InvalidLoginError", json!({"error": format!("{:?}", e)})),
                    }
                }
            }
            // the pending state saved and reloaded through serde (bincode, JSON): the genuine message is still the only one accepted
            let st0 = ServerLogin::<$cs>::deserialize(&st_bytes)?;
            let via_bincode = bincode::serialize(&st0).ok().and_then(|b| bincode::deserialize::<ServerLogin<$cs>>(&b).ok());
            let via_json = serde_json::to_string(&st0).ok().and_then(|b| serde_json::from_str::<ServerLogin<$cs>>(&b).ok());
            for (how, st) in [("bincode", via_bincode), ("json", via_json)] {
                match st {
                    None => acc.hit(stringify!($cs), "pending server state does not survive a serde round trip", json!({"through": how})),
                    Some(st) => {
                        for m in cands.iter().take(3).chain(cands.iter().skip(3).step_by(97)) {
                            acc.tried += 1;
                            if let Ok(msg) = CredentialFinalization::<$cs>::deserialize(m) {
                                if st.clone().finish(msg).is_ok() { acc.hit(stringify!($cs), "serde-reloaded server state accepted a non-matching finalization", json!({"through": how, "given": hx(m)})); }
                            }
                        }
                        acc.tried += 1;
                        if st.finish(CredentialFinalization::<$cs>::deserialize(&good)?).is_err() { acc.hit(stringify!($cs), "serde-reloaded server state rejects the genuine finalization", json!({"through": how})); }
                    }
                }
            }
            // the fake record's pending state must not accept anything we can produce either
            let c = ClientLogin::<$cs>::start(&mut rng, p.pw)?;
            let s = ServerLogin::<$cs>::start(&mut rng, &setup, None, c.message, p.cred, ServerLoginStartParameters::default())?;
            acc.tried += 1;
            if s.state.finish(CredentialFinalization::<$cs>::deserialize(&good)?).is_ok() { acc.hit(stringify!($cs), "fake-record state accepted a finalization", json!({})); }
            Ok(())
        })();
        if let Err(e) = r { acc.hit(stringify!($cs), "setup failed", json!({"error": format!("{:?}", e)})); }
    }};
}
macro_rules! gen_c04 {
    ($cs:ident, $acc:expr) => {{
        let acc: &mut Acc = $acc;
        let mut rng = StdRng::seed_from_u64(4000);
        let p = Params { pw: b"pw", cred: b"id", idu: Some(b"u"), ids: Some(b"s"), ctx: Some(b"c") };
        let r = (|| -> Result<(), ProtocolError> {
            let (setup, file, _e, _k) = register!($cs, &mut rng, p);
            let c = ClientLogin::<$cs>::start(&mut rng, p.pw)?;
            let cbytes = c.state.serialize();
            let s = ServerLogin::<$cs>::start(&mut rng, &setup, Some(file.clone()), c.message, p.cred,
                ServerLoginStartParameters { context: p.ctx, identifiers: Identifiers { client: p.idu, server: p.ids } })?;
            let good = s.message.serialize();
            // a response made for ANOTHER request of the same user
            let c2 = ClientLogin::<$cs>::start(&mut rng, p.pw)?;
            let s2 = ServerLogin::<$cs>::start(&mut rng, &setup, Some(file), c2.message, p.cred,
                ServerLoginStartParameters { context: p.ctx, identifiers: Identifiers { client: p.idu, server: p.ids } })?;
            let mut cands: Vec<Vec<u8>> = vec![s2.message.serialize().to_vec()];
            for i in 0..good.len() { for v in [1u8, 0x80] { let mut m = good.to_vec(); m[i] ^= v; cands.push(m); } }
            for m in cands {
                if let Ok(resp) = CredentialResponse::<$cs>::deserialize(&m) {
                    if m == good.to_vec() { continue; }
                    acc.tried += 1;
                    let st = ClientLogin::<$cs>::deserialize(&cbytes)?;
                    if st.finish(p.pw, resp, ClientLoginFinishParameters::new(p.ctx, Identifiers { client: p.idu, server: p.ids }, None)).is_ok() {
                        acc.hit(stringify!($cs), "client accepted an altered credential response", json!({"genuine": hx(&good), "given": hx(&m)}));
                    }
                }
            }
            Ok(())
        })();
        if let Err(e) = r { acc.hit(stringify!($cs), "setup failed", json!({"error": format!("{:?}", e)})); }
    }};
}
macro_rules! gen_c05 {
    ($cs:ident, $acc:expr) => {{
        let acc: &mut Acc = $acc;
        let mut rng = StdRng::seed_from_u64(5000);
        let long = vec![0x41u8; 65535];
        let r = (|| -> Result<(), ProtocolError> {
            // (registration ids, server login params, client login params, cred ids, must_succeed)
            let reg = Params { pw: b"pw", cred: b"id", idu: Some(b"alice"), ids: Some(b"bob"), ctx: None };
            let (setup, file, _e, spk) = register!($cs, &mut rng, reg);
            let spk_bytes = spk.serialize();
            let mism: Vec<(Params, Params, &[u8], bool, &str)> = vec![
                (Params { ctx: Some(b"a"), ..reg.clone() }, Params { ctx: Some(b"b"), ..reg.clone() }, b"id", false, "context mismatch"),
                (Params { ctx: Some(b""), ..reg.clone() }, Params { ctx: None, ..reg.clone() }, b"id", true, "empty context == absent"),
                (Params { idu: Some(b"alic"), ids: Some(b"ebob"), ..reg.clone() }, Params { idu: Some(b"alic"), ids: Some(b"ebob"), ..reg.clone() }, b"id", false, "bytes moved across identity boundary"),
                (reg.clone(), Params { idu: Some(b"alice2"), ..reg.clone() }, b"id", false, "client identity mismatch at login"),
                (Params { idu: Some(b"mallory"), ..reg.clone() }, Params { idu: Some(b"mallory"), ..reg.clone() }, b"id", false, "identities differ from the sealed ones"),
                (reg.clone(), reg.clone(), b"id2", false, "credential identifier mismatch"),
                (reg.clone(), reg.clone(), b"id", true, "matching parameters"),
                (Params { ctx: Some(&long), ..reg.clone() }, Params { ctx: Some(&long), ..reg.clone() }, b"id", true, "65535-byte context"),
            ];
            for (srv, cli, cred, must, what) in mism {
                acc.tried += 1;
                let (_s, cf) = login!($cs, &mut rng, &setup, Some(file.clone()), b"pw", cred, srv, cli);
                if cf.is_ok() != must { acc.hit(stringify!($cs), what, json!({"accepted": cf.is_ok(), "expected": must})); }
            }
            // full matrix: identities at registration x identities at login (both login sides agree); success iff the EFFECTIVE identities are equal
            let opts_c: [Option<&[u8]>; 4] = [None, Some(b""), Some(b"alice"), Some(b"carol")];
            let opts_s: [Option<&[u8]>; 4] = [None, Some(b""), Some(b"bob"), Some(b"dave")];
            for rc in opts_c { for rs in opts_s {
                let regp = Params { pw: b"pw", cred: b"id", idu: rc, ids: rs, ctx: None };
                let (setup_m, file_m, _e, _k) = register!($cs, &mut rng, regp);
                for lc in opts_c { for ls in opts_s {
                    acc.tried += 1;
                    let lp = Params { idu: lc, ids: ls, ..regp.clone() };
                    let (_s, cf) = login!($cs, &mut rng, &setup_m, Some(file_m.clone()), b"pw", b"id", lp, lp);
                    let must = rc == lc && rs == ls;
                    if cf.is_ok() != must { acc.hit(stringify!($cs), "identities at login vs identities sealed at registration", json!({"registered": [rc.map(hx), rs.map(hx)], "login": [lc.map(hx), ls.map(hx)], "accepted": cf.is_ok(), "expected": must})); }
                } }
                // server and client disagree at login time only
                acc.tried += 1;
                let (_s, cf) = login!($cs, &mut rng, &setup_m, Some(file_m.clone()), b"pw", b"id", Params { ids: Some(b"mallory"), ..regp.clone() }, regp);
                if cf.is_ok() { acc.hit(stringify!($cs), "server used another server identity than the client; login accepted", json!({"registered": [rc.map(hx), rs.map(hx)]})); }
            } }
            // explicit public-key spelling of the default server identity
            let reg2 = Params { pw: b"pw", cred: b"id", idu: None, ids: None, ctx: None };
            let (setup2, file2, _e, spk2) = register!($cs, &mut rng, reg2);
            let spk2b = spk2.serialize();
            acc.tried += 1;
            let (_s, cf) = login!($cs, &mut rng, &setup2, Some(file2), b"pw", b"id", Params { ids: Some(&spk2b), ..reg2.clone() }, reg2);
            if cf.is_err() { acc.hit(stringify!($cs), "explicit public-key identity differs from the default", json!({})); }
            let _ = spk_bytes;
            Ok(())
        })();
        if let Err(e) = r { acc.hit(stringify!($cs), "setup failed", json!({"error": format!("{:?}", e)})); }
    }};
}
macro_rules! gen_c06 {
    ($cs:ident, $acc:expr) => {{
        let acc: &mut Acc = $acc;
        // every combination of explicit / absent identities (the server key enters the envelope both as key and as default identity)
        let long_id = vec![0x6cu8; 300];
        let combos: Vec<(Option<&[u8]>, Option<&[u8]>)> = vec![(None, None), (Some(b"alice"), None), (None, Some(b"server.example")), (Some(b"alice"), Some(b"server.example")),
            (Some(&long_id[..127]), None), (Some(&long_id[..128]), None), (None, Some(&long_id[..128])), (None, Some(&long_id[..129])), (Some(&long_id[..160]), Some(&long_id[..255])), (Some(&long_id[..256]), Some(&long_id[..300]))];
        for (ci, (idu, ids)) in combos.iter().enumerate() {
            let mut rng = StdRng::seed_from_u64(6000 + ci as u64);
            let p = Params { pw: b"pw", cred: b"id", idu: *idu, ids: *ids, ctx: None };
            let r = (|| -> Result<(), ProtocolError> {
                let (setup, file, _e, reg_pk) = register!($cs, &mut rng, p);
                acc.tried += 1;
                if reg_pk.serialize() != setup.keypair().public().serialize() { acc.hit(stringify!($cs), "server key reported at registration differs from the setup's", json!({"client_id": idu.is_some(), "server_id": ids.is_some()})); }
                // honest login reports the setup's key
                let (_s0, cf0) = login!($cs, &mut rng, &setup, Some(file.clone()), p.pw, p.cred, p, p);
                acc.tried += 1;
                match cf0 { Ok(f) => if f.server_s_pk.serialize() != setup.keypair().public().serialize() { acc.hit(stringify!($cs), "server key reported at login differs from the setup's", json!({"client_id": idu.is_some(), "server_id": ids.is_some()})); },
                            Err(e) => acc.hit(stringify!($cs), "honest login failed", json!({"error": format!("{:?}", e), "client_id": idu.is_some(), "server_id": ids.is_some()})) }
                // a setup with the SAME OPRF seed and fake key but another static key pair (built through the native encoding)
                let other = ServerSetup::<$cs>::new(&mut rng);
                let a = setup.serialize(); let b = other.serialize();
                let sk_len = <<$cs as CipherSuite>::KeGroup as opaque_ke::key_exchange::group::KeGroup>::SkLen::to_usize();
                let h = a.len() - 2 * sk_len;
                let mut forged = a.to_vec();
                forged[h..h + sk_len].copy_from_slice(&b[h..h + sk_len]);
                let evil = ServerSetup::<$cs>::deserialize(&forged)?;
                acc.tried += 1;
                let (_s, cf) = login!($cs, &mut rng, &evil, Some(file), p.pw, p.cred, p, p);
                if cf.is_ok() { acc.hit(stringify!($cs), "login succeeded under a substituted server static key", json!({"client_id": idu.is_some(), "server_id": ids.is_some()})); }
                Ok(())
            })();
            if let Err(e) = r { acc.hit(stringify!($cs), "setup failed", json!({"error": format!("{:?}", e)})); }
        }
    }};
}
macro_rules! gen_c08 {
    ($cs:ident, $acc:expr) => {{
        let acc: &mut Acc = $acc;
        let mut rng = StdRng::seed_from_u64(8000);
        let p = Params { pw: b"pw", cred: b"id", idu: None, ids: None, ctx: None };
        let r = (|| -> Result<(), ProtocolError> {
            let (setup, file, _e, _k) = register!($cs, &mut rng, p);
            // the fake record's key pair is a secret drawn from the setup's own tape: setups around the SAME static key pair on independent
            // tapes have different fake keys (a fake key computable from public data lets anyone recognise and complete a fake login)
            {
                let kp = setup.keypair().clone();
                let sk_len = <<$cs as CipherSuite>::KeGroup as opaque_ke::key_exchange::group::KeGroup>::SkLen::to_usize();
                let mut fakes: std::collections::HashSet<Vec<u8>> = std::collections::HashSet::new();
                for t in 0..8u64 {
                    acc.tried += 1;
                    let s = ServerSetup::<$cs>::new_with_key(&mut StdRng::seed_from_u64(8800 + t), kp.clone()).serialize().to_vec();
                    if !fakes.insert(s[s.len() - sk_len..].to_vec()) { acc.hit(stringify!($cs), "the fake record's key pair does not vary with the setup's tape (same static key pair, independent tapes)", json!({"tape": t})); break; }
                }
            }
            let c = ClientLogin::<$cs>::start(&mut rng, p.pw)?;
            // the fake record is drawn from the caller's tape like a real response: on a finite tape that runs dry no fake response may be produced
            for len in (0..=256usize).step_by(8) {
                acc.tried += 1;
                let mut tape = FiniteTape::new(8900 + len as u64, len);
                let done = std::panic::catch_unwind(std::panic::AssertUnwindSafe(|| ServerLogin::<$cs>::start(&mut tape, &setup, None, c.message.clone(), p.cred, ServerLoginStartParameters::default()).is_ok()));
                if let Ok(true) = done { if tape.requested > len { acc.hit(stringify!($cs), "a fake login response was produced although the caller's tape ran dry (some fake field is not random)", json!({"tape_len": len, "bytes_requested": tape.requested})); break; } }
            }
            for k in 1..=8u32 {
                acc.tried += 1;
                let mut fl = FlakyTry::new(8950 + k as u64, k);
                let done = std::panic::catch_unwind(std::panic::AssertUnwindSafe(|| ServerLogin::<$cs>::start(&mut fl, &setup, None, c.message.clone(), p.cred, ServerLoginStartParameters::default()).is_ok()));
                if let Ok(true) = done { if fl.failed { acc.hit(stringify!($cs), "a fake login response was produced although the caller's generator reported an error for one of its draws (some fake field is not random)", json!({"failing_fallible_call": k})); break; } }
            }
            let cb = c.state.serialize();
            let real = ServerLogin::<$cs>::start(&mut rng, &setup, Some(file), c.message.clone(), p.cred, ServerLoginStartParameters::default())?;
            let fake = ServerLogin::<$cs>::start(&mut rng, &setup, None, c.message.clone(), p.cred, ServerLoginStartParameters::default())?;
            let fake2 = ServerLogin::<$cs>::start(&mut rng, &setup, None, c.message, p.cred, ServerLoginStartParameters::default())?;
            let (rb, fb, fb2) = (real.message.serialize(), fake.message.serialize(), fake2.message.serialize());
            acc.tried += 3;
            let ne = rb.len() - fb.len(); let _ = ne;
            if rb.len() != fb.len() { acc.hit(stringify!($cs), "fake response has a different length", json!({})); }
            let elen = <<<$cs as CipherSuite>::OprfCs as voprf_cs::Cs>::G as voprf_cs::Gl>::LEN;
            if rb[..elen] != fb[..elen] { acc.hit(stringify!($cs), "fake evaluation differs from the real per-identifier evaluation", json!({})); }
            if fb[elen..] == fb2[elen..] { acc.hit(stringify!($cs), "fake responses repeat", json!({})); }
            let (fs1, fs2) = (fake.state.serialize(), fake2.state.serialize());
            if fs1 == fs2 { acc.hit(stringify!($cs), "pending server states of two fake attempts are identical", json!({"state": hx(&fs1)})); }
            if fs1.iter().all(|b| *b == 0) { acc.hit(stringify!($cs), "pending server state of a fake attempt is constant (all zero)", json!({})); }
            let st = ClientLogin::<$cs>::deserialize(&cb)?;
            match st.finish(p.pw, fake.message, ClientLoginFinishParameters::default()) {
                Err(ProtocolError::InvalidLoginError) => {}
                other => acc.hit(stringify!($cs), "client reaction to a fake response is not InvalidLoginError", json!({"got": format!("{:?}", other.map(|_| ()))})),
            }
            Ok(())
        })();
        if let Err(e) = r { acc.hit(stringify!($cs), "setup failed", json!({"error": format!("{:?}", e)})); }
    }};
}
/// element lengths of the OPRF suites (used only to slice serialized messages)
mod voprf_cs {
    pub trait Gl { const LEN: usize; }
    pub trait Cs { type G: Gl; }
    pub struct G32; impl Gl for G32 { const LEN: usize = 32; }
    pub struct G33; impl Gl for G33 { const LEN: usize = 33; }
    pub struct G49; impl Gl for G49 { const LEN: usize = 49; }
    pub struct G67; impl Gl for G67 { const LEN: usize = 67; }
    impl Cs for opaque_ke::Ristretto255 { type G = G32; }
    impl Cs for p256::NistP256 { type G = G33; }
    impl Cs for p384::NistP384 { type G = G49; }
    impl Cs for p521::NistP521 { type G = G67; }
}
use generic_array::typenum::Unsigned;

macro_rules! gen_c10 {
    ($cs:ident, $acc:expr) => {{
        let acc: &mut Acc = $acc;
        let mut rng = StdRng::seed_from_u64(10000);
        let p = Params { pw: b"pw", cred: b"id", idu: None, ids: None, ctx: None };
        let r = (|| -> Result<(), ProtocolError> {
            let setup = ServerSetup::<$cs>::new(&mut rng);
            let c = ClientRegistration::<$cs>::start(&mut rng, p.pw)?;
            let req = c.message.serialize().to_vec();
            let creg = c.state.serialize().to_vec();
            let s = ServerRegistration::<$cs>::start(&setup, c.message, p.cred)?;
            let resp = s.message.serialize().to_vec();
            let f = c.state.finish(&mut rng, p.pw, s.message, ClientRegistrationFinishParameters::default())?;
            let upl = f.message.serialize().to_vec();
            let file = ServerRegistration::<$cs>::finish(f.message);
            let cl = ClientLogin::<$cs>::start(&mut rng, p.pw)?;
            let creq = cl.message.serialize().to_vec();
            let clog = cl.state.serialize().to_vec();
            let sl = ServerLogin::<$cs>::start(&mut rng, &setup, Some(file.clone()), cl.message, p.cred, ServerLoginStartParameters::default())?;
            let cresp = sl.message.serialize().to_vec();
            let slog = sl.state.serialize().to_vec();
            let fin = cl.state.finish(p.pw, sl.message, ClientLoginFinishParameters::default())?.message.serialize().to_vec();
            let set = setup.serialize().to_vec();
            let filb = file.serialize().to_vec();
            macro_rules! probe {
                ($ty:ty, $name:expr, $good:expr) => {{
                    let good: &Vec<u8> = $good;
                    let mut variants: Vec<(String, Vec<u8>)> = vec![];
                    let mut v = good.clone(); v.push(0); variants.push(("one trailing byte".into(), v));
                    let mut v = good.clone(); v.extend_from_slice(b"garbage"); variants.push(("trailing garbage".into(), v));
                    if !good.is_empty() { variants.push(("truncated by one".into(), good[..good.len() - 1].to_vec())); }
                    variants.push(("empty".into(), vec![]));
                    // every value of every byte that could be a tag / leading byte of a group element: all positions, tags 00..07 and high bit
                    for i in 0..good.len() { for t in [0u8, 2, 3, 4, 5, 6, 7] { if good[i] != t && (good[i] == 2 || good[i] == 3) { let mut v = good.clone(); v[i] = t; variants.push((format!("byte {} : {:02x} -> {:02x}", i, good[i], t), v)); } } }
                    for (what, v) in variants {
                        acc.tried += 1;
                        if let Ok(m) = <$ty>::deserialize(&v) {
                            let re = m.serialize().to_vec();
                            if re != v { acc.hit(stringify!($cs), "decoder accepted bytes that do not re-encode to themselves", json!({"decoder": $name, "variant": what, "input": hx(&v), "reencoded": hx(&re)})); }
                        }
                    }
                    acc.tried += 1;
                    match <$ty>::deserialize(good) { Ok(m) => if m.serialize().to_vec() != *good { acc.hit(stringify!($cs), "round trip changed a valid encoding", json!({"decoder": $name})); }, Err(_) => acc.hit(stringify!($cs), "valid encoding refused", json!({"decoder": $name})) }
                }};
            }
            probe!(RegistrationRequest<$cs>, "RegistrationRequest", &req);
            probe!(RegistrationResponse<$cs>, "RegistrationResponse", &resp);
            probe!(RegistrationUpload<$cs>, "RegistrationUpload", &upl);
            probe!(CredentialRequest<$cs>, "CredentialRequest", &creq);
            probe!(CredentialResponse<$cs>, "CredentialResponse", &cresp);
            probe!(CredentialFinalization<$cs>, "CredentialFinalization", &fin);
            probe!(ServerRegistration<$cs>, "ServerRegistration", &filb);
            probe!(ServerSetup<$cs>, "ServerSetup", &set);
            probe!(ClientRegistration<$cs>, "ClientRegistration", &creg);
            probe!(ClientLogin<$cs>, "ClientLogin", &clog);
            probe!(ServerLogin<$cs>, "ServerLogin", &slog);
            Ok(())
        })();
        if let Err(e) = r { acc.hit(stringify!($cs), "setup failed", json!({"error": format!("{:?}", e)})); }
    }};
}
/// C12 for the decoders: every length 0 ..= L + 2 of three patterns (zeros, 0xff, a valid encoding truncated / extended) given to every
/// message / state / key decoder under catch_unwind: a panic is a hit (the return value is not judged here, that is C10 / C11)
macro_rules! gen_c12dec {
    ($cs:ident, $acc:expr) => {{
        let acc: &mut Acc = $acc;
        type KG = <$cs as CipherSuite>::KeGroup;
        let mut rng = StdRng::seed_from_u64(12700);
        let p = Params { pw: b"pw", cred: b"id", idu: None, ids: None, ctx: None };
        let r = (|| -> Result<(), ProtocolError> {
            let setup = ServerSetup::<$cs>::new(&mut rng);
            let c = ClientRegistration::<$cs>::start(&mut rng, p.pw)?;
            let req = c.message.serialize().to_vec();
            let creg = c.state.serialize().to_vec();
            let s = ServerRegistration::<$cs>::start(&setup, c.message, p.cred)?;
            let resp = s.message.serialize().to_vec();
            let f = c.state.finish(&mut rng, p.pw, s.message, ClientRegistrationFinishParameters::default())?;
            let upl = f.message.serialize().to_vec();
            let file = ServerRegistration::<$cs>::finish(f.message);
            let cl = ClientLogin::<$cs>::start(&mut rng, p.pw)?;
            let creq = cl.message.serialize().to_vec();
            let clog = cl.state.serialize().to_vec();
            let sl = ServerLogin::<$cs>::start(&mut rng, &setup, Some(file.clone()), cl.message, p.cred, ServerLoginStartParameters::default())?;
            let cresp = sl.message.serialize().to_vec();
            let slog = sl.state.serialize().to_vec();
            let fin = cl.state.finish(p.pw, sl.message, ClientLoginFinishParameters::default())?.message.serialize().to_vec();
            let set = setup.serialize().to_vec();
            let filb = file.serialize().to_vec();
            let pkb = setup.keypair().public().serialize().to_vec();
            let skb = { use opaque_ke::keypair::SecretKey as _; setup.keypair().private().serialize().to_vec() };
            let skb2 = skb.clone(); let set2 = set.clone();
            let reg_req = RegistrationRequest::<$cs>::deserialize(&req)?; let log_req = CredentialRequest::<$cs>::deserialize(&creq)?;
            let decs: Vec<(&str, Box<dyn Fn(&[u8]) -> bool>, Vec<u8>)> = vec![
                ("RegistrationRequest", Box::new(|b| RegistrationRequest::<$cs>::deserialize(b).is_ok()), req),
                ("RegistrationResponse", Box::new(|b| RegistrationResponse::<$cs>::deserialize(b).is_ok()), resp),
                ("RegistrationUpload", Box::new(|b| RegistrationUpload::<$cs>::deserialize(b).is_ok()), upl),
                ("CredentialRequest", Box::new(|b| CredentialRequest::<$cs>::deserialize(b).is_ok()), creq),
                ("CredentialResponse", Box::new(|b| CredentialResponse::<$cs>::deserialize(b).is_ok()), cresp),
                ("CredentialFinalization", Box::new(|b| CredentialFinalization::<$cs>::deserialize(b).is_ok()), fin),
                ("ServerRegistration", Box::new(|b| ServerRegistration::<$cs>::deserialize(b).is_ok()), filb),
                ("ServerSetup", Box::new(|b| ServerSetup::<$cs>::deserialize(b).is_ok()), set),
                ("ClientRegistration", Box::new(|b| ClientRegistration::<$cs>::deserialize(b).is_ok()), creg),
                ("ClientLogin", Box::new(|b| ClientLogin::<$cs>::deserialize(b).is_ok()), clog),
                ("ServerLogin", Box::new(|b| ServerLogin::<$cs>::deserialize(b).is_ok()), slog),
                ("PublicKey", Box::new(|b| opaque_ke::keypair::PublicKey::<KG>::deserialize(b).is_ok()), pkb),
                ("KeyPair::from_private_key_slice", Box::new(|b| opaque_ke::keypair::KeyPair::<KG>::from_private_key_slice(b).is_ok()), skb),
                // ... and USE what was accepted: a decoded key pair is serialized, a decoded setup answers a registration and a login
                ("KeyPair::from_private_key_slice, then public().serialize()", Box::new(|b| { use opaque_ke::keypair::SecretKey as _;
                    opaque_ke::keypair::KeyPair::<KG>::from_private_key_slice(b).map(|kp| { let _ = kp.public().serialize(); let _ = kp.private().serialize(); }).is_ok() }), skb2),
                ("ServerSetup::deserialize, then registration and login", Box::new(move |b| match ServerSetup::<$cs>::deserialize(b) {
                    Ok(s) => { let mut r = StdRng::seed_from_u64(12800);
                        let _ = ServerRegistration::<$cs>::start(&s, reg_req.clone(), b"id").map(|x| x.message.serialize());
                        let _ = ServerLogin::<$cs>::start(&mut r, &s, None, log_req.clone(), b"id", ServerLoginStartParameters::default()).map(|x| x.message.serialize());
                        let _ = s.keypair().public().serialize(); true }
                    Err(_) => false }), set2),
            ];
            for (name, dec, good) in decs.iter() {
                for len in 0..=good.len() + 2 {
                    let ext: Vec<u8> = good.iter().cloned().chain([0u8, 0xff]).take(len).collect();
                    for (pat, v) in [("zeros", vec![0u8; len]), ("0xff", vec![0xffu8; len]), ("valid encoding truncated / extended", ext)] {
                        acc.tried += 1;
                        if std::panic::catch_unwind(std::panic::AssertUnwindSafe(|| dec(&v))).is_err() {
                            acc.hit(stringify!($cs), "PANIC in a decoder", json!({"decoder": name, "pattern": pat, "len": len, "input": hx(&v[..v.len().min(80)])}));
                        }
                    }
                }
            }
            Ok(())
        })();
        if let Err(e) = r { acc.hit(stringify!($cs), "setup failed", json!({"error": format!("{:?}", e)})); }
    }};
}
/// C10 on the serde path: the four messages that START with an OPRF group element, written through bincode (fixed arrays, no framing), with every
/// other value of the element's first byte: an accepted alias that re-encodes differently is a finding (identified by decoder and tag byte)
macro_rules! gen_c10serde {
    ($cs:ident, $acc:expr) => {{
        let acc: &mut Acc = $acc;
        let mut rng = StdRng::seed_from_u64(10500);
        let p = Params { pw: b"pw", cred: b"id", idu: None, ids: None, ctx: None };
        let r = (|| -> Result<(), ProtocolError> {
            let setup = ServerSetup::<$cs>::new(&mut rng);
            let c = ClientRegistration::<$cs>::start(&mut rng, p.pw)?;
            let rreq = c.message.clone();
            let s = ServerRegistration::<$cs>::start(&setup, c.message, p.cred)?;
            let rresp = s.message.clone();
            let f = c.state.finish(&mut rng, p.pw, s.message, ClientRegistrationFinishParameters::default())?;
            let file = ServerRegistration::<$cs>::finish(f.message);
            let cl = ClientLogin::<$cs>::start(&mut rng, p.pw)?;
            let creq = cl.message.clone();
            let sl = ServerLogin::<$cs>::start(&mut rng, &setup, Some(file), cl.message, p.cred, ServerLoginStartParameters::default())?;
            let cresp = sl.message.clone();
            macro_rules! alias {
                ($ty:ty, $name:expr, $v:expr) => {{
                    let native = $v.serialize().to_vec();
                    if let Ok(b) = bincode::serialize(&$v) {
                        if b.len() == native.len() && b == native {
                            for tag in 0u8..=255 { if tag != b[0] {
                                acc.tried += 1;
                                let mut b2 = b.clone(); b2[0] = tag;
                                if let Ok(m) = bincode::deserialize::<$ty>(&b2) {
                                    let re = m.serialize().to_vec();
                                    if re != b2 { acc.hit(stringify!($cs), "serde: an alias encoding of the leading OPRF element is accepted and re-encodes differently", json!({"decoder": $name, "tag": tag, "reencoded_tag": re[0], "path": "bincode"})); }
                                }
                            } }
                        }
                    }
                }};
            }
            // the two client states hold the blinded element somewhere inside: located by its bytes in the bincode output
            macro_rules! alias_state {
                ($ty:ty, $name:expr, $v:expr, $elem:expr) => {{
                    let elem: Vec<u8> = $elem;
                    if let Ok(b) = bincode::serialize(&$v) {
                        if let Some(pos) = b.windows(elem.len()).position(|w| w == &elem[..]) {
                            for tag in 0u8..=255 { if tag != b[pos] {
                                acc.tried += 1;
                                let mut b2 = b.clone(); b2[pos] = tag;
                                if let Ok(m) = bincode::deserialize::<$ty>(&b2) {
                                    if let Ok(re) = bincode::serialize(&m) { if re != b2 {
                                        acc.hit(stringify!($cs), "serde: an alias encoding of the OPRF element inside a persisted state is accepted and re-encodes differently", json!({"decoder": $name, "tag": tag, "reencoded_tag": re[pos], "path": "bincode"}));
                                    } }
                                }
                            } }
                        }
                    }
                }};
            }
            let c2 = ClientRegistration::<$cs>::start(&mut rng, p.pw)?;
            alias_state!(ClientRegistration<$cs>, "ClientRegistration", c2.state, c2.message.serialize().to_vec());
            let cl2 = ClientLogin::<$cs>::start(&mut rng, p.pw)?;
            let noe = rreq.serialize().len();
            alias_state!(ClientLogin<$cs>, "ClientLogin", cl2.state, cl2.message.serialize()[..noe].to_vec());
            alias!(RegistrationRequest<$cs>, "RegistrationRequest", rreq);
            alias!(RegistrationResponse<$cs>, "RegistrationResponse", rresp);
            alias!(CredentialRequest<$cs>, "CredentialRequest", creq);
            alias!(CredentialResponse<$cs>, "CredentialResponse", cresp);
            Ok(())
        })();
        if let Err(e) = r { acc.hit(stringify!($cs), "setup failed", json!({"error": format!("{:?}", e)})); }
    }};
}
macro_rules! gen_c12 {
    ($cs:ident, $acc:expr) => {{
        let acc: &mut Acc = $acc;
        let big = vec![0x5au8; 131072];
        for &n in &[0usize, 1, 255, 256, 65535, 65536, 65537, 131072] {
            // one parameter at a time: credential identifier (any length is fine), client identity, server identity, context
            for which in 0..4u8 {
                acc.tried += 1;
                let r = std::panic::catch_unwind(|| {
                    let mut rng = StdRng::seed_from_u64(12000 + n as u64);
                    let s = &big[..n];
                    let p = Params { pw: b"pw", cred: if which == 0 { s } else { b"id" }, idu: if which == 1 { Some(s) } else { None }, ids: if which == 2 { Some(s) } else { None }, ctx: if which == 3 { Some(s) } else { None } };
                    let res = (|| -> Result<bool, ProtocolError> {
                        let (setup, file, _e, _k) = register!($cs, &mut rng, p);
                        let (st, cf) = login!($cs, &mut rng, &setup, Some(file), p.pw, p.cred, p, p);
                        Ok(st.finish(cf?.message).is_ok())
                    })();
                    // identities / context beyond 65535 bytes are refused; everything else works
                    (which == 0 || n <= 65535) == matches!(res, Ok(true))
                });
                let pname = ["credential identifier", "client identity", "server identity", "context"][which as usize];
                match r { Err(_) => acc.hit(stringify!($cs), "panic", json!({"len": n, "parameter": pname})),
                          Ok(false) => acc.hit(stringify!($cs), "over-long parameter not refused (or a valid length refused)", json!({"len": n, "parameter": pname})), _ => {} }
            }
            acc.tried += 1;
            let r = std::panic::catch_unwind(|| {
                let mut rng = StdRng::seed_from_u64(12500 + n as u64);
                let pw = &big[..n];
                let p = Params { pw, cred: b"id", idu: None, ids: None, ctx: None };
                let res = (|| -> Result<bool, ProtocolError> {
                    let (setup, file, _e, _k) = register!($cs, &mut rng, p);
                    let (st, cf) = login!($cs, &mut rng, &setup, Some(file), p.pw, p.cred, p, p);
                    Ok(st.finish(cf?.message).is_ok())
                })();
                (n <= 65535) == matches!(res, Ok(true))
            });
            match r { Err(_) => acc.hit(stringify!($cs), "panic (password length)", json!({"len": n})), Ok(false) => acc.hit(stringify!($cs), "over-long password not refused / valid length refused", json!({"len": n})), _ => {} }
        }
    }};
}
macro_rules! gen_c13 {
    ($cs:ident, $acc:expr) => {{
        let acc: &mut Acc = $acc;
        let p = Params { pw: b"pw", cred: b"id", idu: Some(b"u"), ids: None, ctx: Some(b"c") };
        // mode 0: no reload; 1: native bytes; 2: bincode; 3: JSON  — at every persistence point
        let mut outputs: Vec<Vec<u8>> = vec![];
        for mode in 0..4u8 {
            acc.tried += 1;
            let mut rng = StdRng::seed_from_u64(13000);
            macro_rules! reload { ($ty:ty, $v:expr) => {{ let v = $v; match mode {
                0 => v,
                1 => <$ty>::deserialize(&v.serialize()).expect("native reload"),
                2 => bincode::deserialize::<$ty>(&bincode::serialize(&v).expect("bincode ser")).expect("bincode de"),
                _ => serde_json::from_str::<$ty>(&serde_json::to_string(&v).expect("json ser")).expect("json de"),
            } }} }
            let r = std::panic::catch_unwind(std::panic::AssertUnwindSafe(|| -> Result<Vec<u8>, ProtocolError> {
                let mut out = vec![];
                let setup = reload!(ServerSetup<$cs>, ServerSetup::<$cs>::new(&mut rng));
                let c = ClientRegistration::<$cs>::start(&mut rng, p.pw)?;
                let cstate = reload!(ClientRegistration<$cs>, c.state);
                let setup = reload!(ServerSetup<$cs>, setup);
                let s = ServerRegistration::<$cs>::start(&setup, c.message, p.cred)?;
                let f = cstate.finish(&mut rng, p.pw, s.message, ClientRegistrationFinishParameters::new(Identifiers { client: p.idu, server: p.ids }, None))?;
                out.extend_from_slice(&f.message.serialize()); out.extend_from_slice(&f.export_key);
                let file = reload!(ServerRegistration<$cs>, ServerRegistration::<$cs>::finish(f.message));
                let cl = ClientLogin::<$cs>::start(&mut rng, p.pw)?;
                let clstate = reload!(ClientLogin<$cs>, cl.state);
                let setup = reload!(ServerSetup<$cs>, setup);
                let sl = ServerLogin::<$cs>::start(&mut rng, &setup, Some(file), cl.message, p.cred,
                    ServerLoginStartParameters { context: p.ctx, identifiers: Identifiers { client: p.idu, server: p.ids } })?;
                out.extend_from_slice(&sl.message.serialize());
                let slstate = reload!(ServerLogin<$cs>, sl.state);
                let cf = clstate.finish(p.pw, sl.message, ClientLoginFinishParameters::new(p.ctx, Identifiers { client: p.idu, server: p.ids }, None))?;
                out.extend_from_slice(&cf.message.serialize()); out.extend_from_slice(&cf.session_key); out.extend_from_slice(&cf.export_key);
                let sf = slstate.finish(cf.message)?;
                out.extend_from_slice(&sf.session_key);
                // a login attempt for an unknown user against the (reloaded) setup
                let setup = reload!(ServerSetup<$cs>, setup);
                let cu = ClientLogin::<$cs>::start(&mut rng, b"x")?;
                let su = ServerLogin::<$cs>::start(&mut rng, &setup, None, cu.message, b"nobody", ServerLoginStartParameters::default())?;
                out.extend_from_slice(&su.message.serialize()); out.extend_from_slice(&su.state.serialize());
                Ok(out)
            }));
            match r {
                Err(_) => acc.hit(stringify!($cs), "reload failed (panic / decode error)", json!({"mode": mode})),
                Ok(Err(e)) => acc.hit(stringify!($cs), "run with reloads failed", json!({"mode": mode, "error": format!("{:?}", e)})),
                Ok(Ok(o)) => outputs.push(o),
            }
        }
        if outputs.len() == 4 && !(outputs[0] == outputs[1] && outputs[0] == outputs[2] && outputs[0] == outputs[3]) {
            acc.hit(stringify!($cs), "outputs differ after a reload", json!({"equal_native": outputs[0] == outputs[1], "equal_bincode": outputs[0] == outputs[2], "equal_json": outputs[0] == outputs[3]}));
        }
    }};
}

/// C14 / C17: determinism in the tape, freshness of every random value, independence from the blind
macro_rules! gen_c17 { ($cs:ident, $acc:expr) => { gen_c14_c17!($cs, $acc, false) }; }
macro_rules! gen_c14 { ($cs:ident, $acc:expr) => { gen_c14_c17!($cs, $acc, true) }; }
/// shared runs; `$keyed == true` adds what only C14 states (masking key independent of the blind, keyed per credential identifier / password / seed)
macro_rules! gen_c14_c17 {
    ($cs:ident, $acc:expr, $keyed:expr) => {{
        let acc: &mut Acc = $acc;
        let keyed: bool = $keyed;
        let p = Params { pw: b"pw", cred: b"id", idu: None, ids: None, ctx: None };
        let run = |seed: u64| -> Result<Vec<Vec<u8>>, ProtocolError> {
            let mut rng = StdRng::seed_from_u64(seed);
            let setup = ServerSetup::<$cs>::new(&mut rng);
            let c = ClientRegistration::<$cs>::start(&mut rng, p.pw)?;
            let req = c.message.serialize().to_vec();
            let s = ServerRegistration::<$cs>::start(&setup, c.message, p.cred)?;
            let f = c.state.finish(&mut rng, p.pw, s.message, ClientRegistrationFinishParameters::default())?;
            let upl = f.message.serialize().to_vec();
            let file = ServerRegistration::<$cs>::finish(f.message);
            let cl = ClientLogin::<$cs>::start(&mut rng, p.pw)?;
            let creq = cl.message.serialize().to_vec();
            let sl = ServerLogin::<$cs>::start(&mut rng, &setup, Some(file), cl.message, p.cred, ServerLoginStartParameters::default())?;
            let cresp = sl.message.serialize().to_vec();
            Ok(vec![setup.serialize().to_vec(), req, upl, creq, cresp])
        };
        acc.tried += 3;
        match (run(17), run(17), run(18)) {
            (Ok(a), Ok(b), Ok(c)) => {
                if a != b { acc.hit(stringify!($cs), "identical tapes give different outputs (hidden entropy source)", json!({})); }
                let names = ["server setup", "registration request (blind)", "registration upload (envelope nonce)", "credential request (blind, client nonce, ephemeral key)", "credential response (masking nonce, server nonce, ephemeral key)"];
                for i in 0..5 { if a[i] == c[i] { acc.hit(stringify!($cs), "a value meant to be random does not vary with the tape", json!({"message": names[i], "bytes": hx(&a[i])})); } }
            }
            (x, _, _) => acc.hit(stringify!($cs), "honest run failed", json!({"error": format!("{:?}", x.err())})),
        }
        // 64 independent tapes: no random value repeats (a value fed by a few bits of the tape only would collide here)
        {
            let mut seen: Vec<std::collections::HashSet<Vec<u8>>> = (0..5).map(|_| std::collections::HashSet::new()).collect();
            let names = ["server setup (OPRF seed / key pairs)", "registration request (blind)", "registration upload (envelope nonce)", "credential request (blind, client nonce, ephemeral key)", "credential response (masking nonce, server nonce, ephemeral key)"];
            let mut seeds: std::collections::HashSet<Vec<u8>> = std::collections::HashSet::new();
            // ... also through the other constructor (a caller-supplied static key pair): seed and fake key still come from the tape
            {
                let kp = ServerSetup::<$cs>::new(&mut StdRng::seed_from_u64(169999)).keypair().clone();
                let mut seen2: std::collections::HashSet<Vec<u8>> = std::collections::HashSet::new();
                for t in 0..64u64 {
                    acc.tried += 1;
                    let v = ServerSetup::<$cs>::new_with_key(&mut StdRng::seed_from_u64(171000 + t), kp.clone()).serialize().to_vec();
                    let sk = <<$cs as CipherSuite>::KeGroup as opaque_ke::key_exchange::group::KeGroup>::SkLen::to_usize();
                    let nh = v.len() - 2 * sk;
                    if !seen2.insert(v[..nh].to_vec()) { acc.hit(stringify!($cs), "the server OPRF seed repeats across independent tapes (ServerSetup::new_with_key)", json!({"tape": t, "seed": hx(&v[..nh])})); break; }
                }
            }
            for t in 0..64u64 {
                acc.tried += 1;
                if let Ok(v) = run(170000 + t) {
                    let nh = v[0].len() - 2 * <<$cs as CipherSuite>::KeGroup as opaque_ke::key_exchange::group::KeGroup>::SkLen::to_usize();
                    if !seeds.insert(v[0][..nh].to_vec()) { acc.hit(stringify!($cs), "the server OPRF seed repeats across independent tapes", json!({"tape": t, "seed": hx(&v[0][..nh])})); break; }
                    let mut stop = false;
                    for i in 0..5 { if !seen[i].insert(v[i].clone()) { acc.hit(stringify!($cs), "a value meant to be random repeats across independent tapes", json!({"message": names[i], "tape": t})); stop = true; } }
                    if stop { break; }
                }
            }
        }
        // a finite tape (fill_bytes panics when it runs dry, try_fill_bytes reports an error): an operation that completes although the tape was
        // too short has taken a "random" value from somewhere else
        {
            let setup = ServerSetup::<$cs>::new(&mut StdRng::seed_from_u64(17500));
            let c0 = ClientRegistration::<$cs>::start(&mut StdRng::seed_from_u64(17501), p.pw);
            let s0 = c0.and_then(|c| { let st = c.state; ServerRegistration::<$cs>::start(&setup, c.message, p.cred).map(|s| (st, s)) });
            let file = s0.and_then(|(st, s)| st.finish(&mut StdRng::seed_from_u64(17502), p.pw, s.message, ClientRegistrationFinishParameters::default())).map(|f| ServerRegistration::<$cs>::finish(f.message));
            let creq = ClientLogin::<$cs>::start(&mut StdRng::seed_from_u64(17503), p.pw);
            if let (Ok(file), Ok(creq)) = (file, creq) {
                for len in (0..=256usize).step_by(8) {
                    for which in 0..4u8 {
                        acc.tried += 1;
                        let mut tape = FiniteTape::new(17600 + len as u64, len);
                        let done = std::panic::catch_unwind(std::panic::AssertUnwindSafe(|| match which {
                            0 => ClientLogin::<$cs>::start(&mut tape, p.pw).is_ok(),
                            1 => ServerLogin::<$cs>::start(&mut tape, &setup, Some(file.clone()), creq.message.clone(), p.cred, ServerLoginStartParameters::default()).is_ok(),
                            2 => ServerLogin::<$cs>::start(&mut tape, &setup, None, creq.message.clone(), p.cred, ServerLoginStartParameters::default()).is_ok(),
                            _ => ClientRegistration::<$cs>::start(&mut tape, p.pw).is_ok(),
                        }));
                        let opname = ["ClientLogin::start", "ServerLogin::start", "ServerLogin::start without a record", "ClientRegistration::start"][which as usize];
                        if len < 48 {   // (re-using the sweep: the first few values of `len` also serve as the index k of the failing fallible call)
                            let k = (len / 8 + 1) as u32;
                            let mut fl = FlakyTry::new(17700 + k as u64, k);
                            let done2 = std::panic::catch_unwind(std::panic::AssertUnwindSafe(|| match which {
                                0 => ClientLogin::<$cs>::start(&mut fl, p.pw).is_ok(),
                                1 => ServerLogin::<$cs>::start(&mut fl, &setup, Some(file.clone()), creq.message.clone(), p.cred, ServerLoginStartParameters::default()).is_ok(),
                                2 => ServerLogin::<$cs>::start(&mut fl, &setup, None, creq.message.clone(), p.cred, ServerLoginStartParameters::default()).is_ok(),
                                _ => ClientRegistration::<$cs>::start(&mut fl, p.pw).is_ok(),
                            }));
                            if let Ok(true) = done2 { if fl.failed { acc.hit(stringify!($cs), "an operation completed although the caller's generator reported an error for one of its draws (error swallowed: that value did not come from the tape)", json!({"operation": opname, "failing_fallible_call": k})); } }
                        }
                        if let Ok(true) = done { if tape.requested > len {
                            acc.hit(stringify!($cs), "an operation completed although the caller's tape ran dry (a random value did not come from the tape)", json!({"operation": opname, "tape_len": len, "bytes_requested": tape.requested}));
                        } }
                    }
                }
            }
        }
        // same password, same server, two registrations on independent tapes: different requests, same masking key
        let r = (|| -> Result<(), ProtocolError> {
            let mut rng = StdRng::seed_from_u64(1700);
            let setup = ServerSetup::<$cs>::new(&mut rng);
            let mut reqs = vec![]; let mut mks = vec![];
            for seed in [1u64, 2, 3] {
                let mut r2 = StdRng::seed_from_u64(seed);
                let c = ClientRegistration::<$cs>::start(&mut r2, p.pw)?;
                reqs.push(c.message.serialize().to_vec());
                let s = ServerRegistration::<$cs>::start(&setup, c.message, p.cred)?;
                let f = c.state.finish(&mut r2, p.pw, s.message, ClientRegistrationFinishParameters::default())?;
                let u = f.message.serialize().to_vec();
                let npk = <<$cs as CipherSuite>::KeGroup as opaque_ke::key_exchange::group::KeGroup>::PkLen::to_usize();
                let nh = (u.len() - npk - 32) / 2;
                mks.push(u[npk..npk + nh].to_vec());
            }
            acc.tried += 3;
            if reqs[0] == reqs[1] || reqs[1] == reqs[2] { acc.hit(stringify!($cs), "registration requests for the same password on independent tapes are identical (blind not fresh)", json!({"request": hx(&reqs[0])})); }
            if keyed && (mks[0] != mks[1] || mks[1] != mks[2]) { acc.hit(stringify!($cs), "masking key depends on the blinding randomness", json!({})); }
            if !keyed { return Ok(()); }
            // other credential identifiers (empty, prefixes of one another, long ones sharing a long prefix): the SAME request must be
            // evaluated under a different key for each, at registration and at login alike
            let long_a = vec![0x61u8; 300]; let mut long_b = long_a.clone(); long_b[299] = 0x62;
            let digests: Vec<Vec<u8>> = { use sha2::Digest as _; let mut v = vec![];
                for x in [&long_a[..65], &long_a[..129], &long_a[..]] { v.push(sha2::Sha256::digest(x).to_vec()); v.push(sha2::Sha384::digest(x).to_vec()); v.push(sha2::Sha512::digest(x).to_vec()); } v };
            let mut creds: Vec<&[u8]> = vec![b"id", b"", b"i", b"id-other", &long_a[..63], &long_a[..64], &long_a[..65], &long_a[..127], &long_a[..128], &long_a[..129], &long_a, &long_b];
            for d in digests.iter() { creds.push(&d[..]); }
            let mut r3 = StdRng::seed_from_u64(9);
            let c = ClientRegistration::<$cs>::start(&mut r3, p.pw)?;
            let cl = ClientLogin::<$cs>::start(&mut r3, p.pw)?;
            let elen = c.message.serialize().len();
            let mut evals: Vec<Vec<u8>> = vec![];
            for cred in creds.iter() {
                acc.tried += 1;
                let s = ServerRegistration::<$cs>::start(&setup, c.message.clone(), cred)?;
                let e1 = s.message.serialize()[..elen].to_vec();
                let sl = ServerLogin::<$cs>::start(&mut r3, &setup, None, cl.message.clone(), cred, ServerLoginStartParameters::default())?;
                let _ = e1.len();
                evals.push(e1);
                let _ = sl;
            }
            for i in 0..evals.len() { for j in 0..i { if evals[i] == evals[j] {
                acc.hit(stringify!($cs), "two different credential identifiers are evaluated under the same OPRF key", json!({"a": hx(creds[j]), "b": hx(creds[i])}));
            } } }
            // other passwords (one byte apart, at the start, at the very end of the longest encodable password): different masking keys
            let base: Vec<u8> = (0..65535u32).map(|i| (i % 249) as u8).collect();
            let mut last = base.clone(); last[65534] ^= 1; let mut prev = base.clone(); prev[65533] ^= 0x80;
            let pws: Vec<&[u8]> = vec![b"pw", b"pW", b"pw\0", b"", &base, &last, &prev, &base[..65534], &base[..65533]];
            let mut pmk: Vec<Vec<u8>> = vec![];
            for pw in pws.iter() {
                acc.tried += 1;
                let mut r4 = StdRng::seed_from_u64(14);
                let c = ClientRegistration::<$cs>::start(&mut r4, pw)?;
                let s = ServerRegistration::<$cs>::start(&setup, c.message, p.cred)?;
                let f = c.state.finish(&mut r4, pw, s.message, ClientRegistrationFinishParameters::default())?;
                let u = f.message.serialize().to_vec();
                let npk = <<$cs as CipherSuite>::KeGroup as opaque_ke::key_exchange::group::KeGroup>::PkLen::to_usize();
                let nh = (u.len() - npk - 32) / 2;
                pmk.push(u[npk..npk + nh].to_vec());
            }
            for i in 0..pmk.len() { for j in 0..i { if pmk[i] == pmk[j] {
                acc.hit(stringify!($cs), "two different passwords derive the same masking key", json!({"len_a": pws[j].len(), "len_b": pws[i].len(), "first_difference_at": pws[i].iter().zip(pws[j].iter()).position(|(x, y)| x != y)}));
            } } }
            // a password beyond the encodable limit is refused on the unchanged tree; should a tree accept it, it must not coincide with anything
            // it could have been folded into (prefix at the limit, digests in the HMAC long-key idiom)
            {
                use sha2::Digest as _;
                let over: Vec<u8> = (0..65536u32).map(|i| (i % 247) as u8).collect();
                let mk_of = |pw: &[u8]| -> Result<Vec<u8>, ProtocolError> {
                    let mut r5 = StdRng::seed_from_u64(15);
                    let c = ClientRegistration::<$cs>::start(&mut r5, pw)?;
                    let s = ServerRegistration::<$cs>::start(&setup, c.message, p.cred)?;
                    let f = c.state.finish(&mut r5, pw, s.message, ClientRegistrationFinishParameters::default())?;
                    let u = f.message.serialize().to_vec();
                    let npk = <<$cs as CipherSuite>::KeGroup as opaque_ke::key_exchange::group::KeGroup>::PkLen::to_usize();
                    let nh = (u.len() - npk - 32) / 2;
                    Ok(u[npk..npk + nh].to_vec())
                };
                acc.tried += 1;
                if let Ok(mk_over) = mk_of(&over) {
                    let cands: Vec<(&str, Vec<u8>)> = vec![("first 65535 bytes", over[..65535].to_vec()), ("SHA-256", sha2::Sha256::digest(&over).to_vec()), ("SHA-384", sha2::Sha384::digest(&over).to_vec()), ("SHA-512", sha2::Sha512::digest(&over).to_vec())];
                    for (what, c) in cands.iter() {
                        acc.tried += 1;
                        if let Ok(mk) = mk_of(c) { if mk == mk_over { acc.hit(stringify!($cs), "an over-long password and a different short one derive the same masking key", json!({"short_one": what})); } }
                    }
                }
            }
            // another server (other seed): different evaluation for the same identifier
            let setup2 = ServerSetup::<$cs>::new(&mut r3);
            acc.tried += 1;
            if ServerRegistration::<$cs>::start(&setup2, c.message.clone(), b"id")?.message.serialize()[..elen] == evals[0][..] { acc.hit(stringify!($cs), "OPRF key ignores the server seed", json!({})); }
            Ok(())
        })();
        if let Err(e) = r { acc.hit(stringify!($cs), "setup failed", json!({"error": format!("{:?}", e)})); }
    }};
}
/// C16: export key stable across logins / contexts, new per registration, and no secret verbatim in any transmitted or stored bytes
macro_rules! gen_c16 {
    ($cs:ident, $acc:expr) => {{
        let acc: &mut Acc = $acc;
        let pw: &[u8] = b"a password of more than sixteen bytes";
        let r = (|| -> Result<(), ProtocolError> {
            let mut rng = StdRng::seed_from_u64(16000);
            let p = Params { pw, cred: b"id", idu: None, ids: None, ctx: None };
            let (setup, file, export, _k) = register!($cs, &mut rng, p);
            // re-registration of the same user (same server, same credential identifier, same password)
            let c2 = ClientRegistration::<$cs>::start(&mut rng, pw)?;
            let s2 = ServerRegistration::<$cs>::start(&setup, c2.message, p.cred)?;
            let f2 = c2.state.finish(&mut rng, pw, s2.message, ClientRegistrationFinishParameters::default())?;
            acc.tried += 1;
            if export == f2.export_key { acc.hit(stringify!($cs), "a new registration (same user, same password, same server) yields the same export key", json!({})); }
            if file.serialize() == f2.message.serialize() { acc.hit(stringify!($cs), "re-registration reproduces the same password file (envelope nonce not fresh)", json!({})); }
            // another user / another password on the same server
            let (_s3, _f3, export3, _k3) = register!($cs, &mut rng, p);
            if export == export3 { acc.hit(stringify!($cs), "registration on another server yields the same export key", json!({})); }
            let mut wire: Vec<u8> = file.serialize().to_vec();
            let mut secrets: Vec<Vec<u8>> = vec![pw.to_vec(), export.to_vec()];
            for (i, ctx) in [None, Some(&b"ctx-a"[..]), Some(&b"ctx-b"[..])].iter().enumerate() {
                let pp = Params { ctx: *ctx, ..p.clone() };
                let c = ClientLogin::<$cs>::start(&mut rng, pw)?;
                wire.extend_from_slice(&c.message.serialize());
                let s = ServerLogin::<$cs>::start(&mut rng, &setup, Some(file.clone()), c.message, p.cred, ServerLoginStartParameters { context: pp.ctx, identifiers: Identifiers::default() })?;
                wire.extend_from_slice(&s.message.serialize());
                let cf = c.state.finish(pw, s.message, ClientLoginFinishParameters::new(pp.ctx, Identifiers::default(), None))?;
                wire.extend_from_slice(&cf.message.serialize());
                acc.tried += 1;
                if cf.export_key != export { acc.hit(stringify!($cs), "login export key differs from the registration's", json!({"login": i})); }
                secrets.push(cf.session_key.to_vec());
            }
            for sec in secrets { if sec.len() >= 16 && wire.windows(sec.len()).any(|w| w == &sec[..]) { acc.hit(stringify!($cs), "a secret appears verbatim in transmitted / stored bytes", json!({"secret_len": sec.len()})); } }
            // another SERVER yields another export key even when the client's randomness is the same (the envelope nonce alone must not be
            // what separates them): several fresh setups on independent tapes
            {
                let mut exps: Vec<Vec<u8>> = vec![];
                for t in 0..4u64 {
                    let srv = ServerSetup::<$cs>::new(&mut StdRng::seed_from_u64(16900 + t));
                    let mut r7 = StdRng::seed_from_u64(16800);
                    let c = ClientRegistration::<$cs>::start(&mut r7, pw)?;
                    let s = ServerRegistration::<$cs>::start(&srv, c.message, p.cred)?;
                    exps.push(c.state.finish(&mut r7, pw, s.message, ClientRegistrationFinishParameters::default())?.export_key.to_vec());
                }
                acc.tried += 1;
                for i in 0..exps.len() { for j in 0..i { if exps[i] == exps[j] { acc.hit(stringify!($cs), "registering with another server (fresh setup, same client randomness) yields the same export key", json!({"servers": [j, i]})); } } }
            }
            // another password yields another export key - also beyond the encodable limit, should a tree accept such passwords at all:
            // same client randomness, passwords that agree on the first 65535 / 65533 bytes
            let over: Vec<u8> = (0..65600u32).map(|i| (i % 241) as u8).collect();
            let exp_of = |pw: &[u8]| -> Result<Vec<u8>, ProtocolError> {
                let mut r6 = StdRng::seed_from_u64(16600);
                let c = ClientRegistration::<$cs>::start(&mut r6, pw)?;
                let s = ServerRegistration::<$cs>::start(&setup, c.message, p.cred)?;
                Ok(c.state.finish(&mut r6, pw, s.message, ClientRegistrationFinishParameters::default())?.export_key.to_vec())
            };
            acc.tried += 1;
            if let Ok(e_over) = exp_of(&over) {
                for n in [65535usize, 65534, 65533, 65536, 65599] {
                    acc.tried += 1;
                    if let Ok(e) = exp_of(&over[..n]) { if e == e_over { acc.hit(stringify!($cs), "another password (a proper prefix of an over-long one) yields the same export key", json!({"prefix_len": n, "full_len": over.len()})); } }
                }
            }
            Ok(())
        })();
        if let Err(e) = r { acc.hit(stringify!($cs), "honest run failed", json!({"error": format!("{:?}", e)})); }
    }};
}
/// C07: two users, concurrent sessions, every cross delivery
macro_rules! gen_c07 {
    ($cs:ident, $acc:expr) => {{
        let acc: &mut Acc = $acc;
        let r = (|| -> Result<(), ProtocolError> {
            let mut rng = StdRng::seed_from_u64(7000);
            let pa = Params { pw: b"pw-a", cred: b"alice", idu: None, ids: None, ctx: None };
            let pb = Params { pw: b"pw-a", cred: b"bob", idu: None, ids: None, ctx: None };   // bob shares alice's password
            let setup = ServerSetup::<$cs>::new(&mut rng);
            let mut files = vec![];
            for p in [&pa, &pb] {
                let c = ClientRegistration::<$cs>::start(&mut rng, p.pw)?;
                let s = ServerRegistration::<$cs>::start(&setup, c.message, p.cred)?;
                let f = c.state.finish(&mut rng, p.pw, s.message, ClientRegistrationFinishParameters::default())?;
                files.push(ServerRegistration::<$cs>::finish(f.message));
            }
            // four client sessions: alice x2, bob, alice with a wrong password
            let users: Vec<(&[u8], usize, &[u8])> = vec![(b"pw-a", 0, b"alice"), (b"pw-a", 0, b"alice"), (b"pw-a", 1, b"bob"), (b"wrong", 0, b"alice")];
            let mut cstates = vec![]; let mut creqs = vec![];
            for (pw, _, _) in users.iter() { let c = ClientLogin::<$cs>::start(&mut rng, pw)?; cstates.push(c.state.serialize().to_vec()); creqs.push(c.message); }
            // every (request, record) server session
            let mut sess = vec![];
            for (ri, req) in creqs.iter().enumerate() { for (fi, cred) in [(0usize, &b"alice"[..]), (1, &b"bob"[..])] {
                let s = ServerLogin::<$cs>::start(&mut rng, &setup, Some(files[fi].clone()), req.clone(), cred, ServerLoginStartParameters::default())?;
                sess.push((ri, fi, s.message.serialize().to_vec(), s.state.serialize().to_vec()));
            } }
            let mut keys: Vec<Vec<u8>> = vec![];
            for (ci, (pw, fi, _)) in users.iter().enumerate() { for (ri, sfi, resp, sstate) in sess.iter() {
                acc.tried += 1;
                let st = ClientLogin::<$cs>::deserialize(&cstates[ci])?;
                let out = st.finish(pw, CredentialResponse::<$cs>::deserialize(resp)?, ClientLoginFinishParameters::default());
                // a matched conversation: the server session answered THIS client's request, under a record whose password the client knows
                // (bob shares alice's password, so either record completes for a client holding that password)
                let matched = *ri == ci && ci != 3; let _ = (fi, sfi);
                match out {
                    Ok(cf) => {
                        if !matched { acc.hit(stringify!($cs), "client accepted a response of another session / user", json!({"client": ci, "request": ri, "record": sfi})); }
                        // (the pending server state may have been parked through serde in between: same outcome, same key)
                        if let Ok(st) = ServerLogin::<$cs>::deserialize(sstate) {
                            if let Ok(bytes) = bincode::serialize(&st) { if let Ok(st2) = bincode::deserialize::<ServerLogin<$cs>>(&bytes) {
                                match st2.finish(cf.message.clone()) {
                                    Ok(k) => if k.session_key != cf.session_key { acc.hit(stringify!($cs), "keys differ within a completed session when the pending server state went through serde", json!({})); },
                                    Err(_) => acc.hit(stringify!($cs), "matched conversation not completed by a server state that went through serde", json!({})),
                                }
                            } }
                        }
                        let sf = ServerLogin::<$cs>::deserialize(sstate)?.finish(cf.message.clone());
                        match sf { Ok(k) => { if k.session_key != cf.session_key { acc.hit(stringify!($cs), "keys differ within a completed session", json!({})); } keys.push(cf.session_key.to_vec()); }
                                   Err(_) => acc.hit(stringify!($cs), "matched conversation not completed by the server", json!({})) }
                        // the finalization must not complete any OTHER pending server session
                        for (ri2, sfi2, _r2, sstate2) in sess.iter() { if (ri2, sfi2) != (ri, sfi) {
                            acc.tried += 1;
                            if ServerLogin::<$cs>::deserialize(sstate2)?.finish(cf.message.clone()).is_ok() { acc.hit(stringify!($cs), "a finalization completed another pending server session", json!({})); }
                        } }
                    }
                    Err(_) => if matched { acc.hit(stringify!($cs), "matched conversation rejected by the client", json!({"client": ci})); },
                }
            } }
            for i in 0..keys.len() { for j in 0..i { if keys[i] == keys[j] { acc.hit(stringify!($cs), "two completed sessions share a session key", json!({})); } } }
            // a request or response altered in transit (top / bottom bit of every byte that starts or ends a field: both ends of every 16-byte
            // aligned window would be too coarse, so every byte's top and bottom bit): no conversation completes on both sides
            let c = ClientLogin::<$cs>::start(&mut rng, b"pw-a")?;
            let req = c.message.serialize().to_vec();
            let cst = c.state.serialize().to_vec();
            for i in 0..req.len() { for bit in [0x80u8, 0x01] {
                let mut r2 = req.clone(); r2[i] ^= bit;
                acc.tried += 1;
                let done = (|| -> Result<bool, ProtocolError> {
                    let mut r9 = StdRng::seed_from_u64(7700);
                    let s = ServerLogin::<$cs>::start(&mut r9, &setup, Some(files[0].clone()), CredentialRequest::<$cs>::deserialize(&r2)?, b"alice", ServerLoginStartParameters::default())?;
                    let cf = ClientLogin::<$cs>::deserialize(&cst)?.finish(b"pw-a", s.message, ClientLoginFinishParameters::default())?;
                    Ok(s.state.finish(cf.message).is_ok())
                })();
                if let Ok(true) = done { acc.hit(stringify!($cs), "login completed on both sides although the request was altered in transit", json!({"byte": i, "mask": bit, "request_len": req.len()})); }
            } }
            let mut r9 = StdRng::seed_from_u64(7701);
            let s = ServerLogin::<$cs>::start(&mut r9, &setup, Some(files[0].clone()), CredentialRequest::<$cs>::deserialize(&req)?, b"alice", ServerLoginStartParameters::default())?;
            let resp = s.message.serialize().to_vec();
            for i in 0..resp.len() { for bit in [0x80u8, 0x01] {
                let mut r2 = resp.clone(); r2[i] ^= bit;
                acc.tried += 1;
                let done = (|| -> Result<bool, ProtocolError> {
                    let cf = ClientLogin::<$cs>::deserialize(&cst)?.finish(b"pw-a", CredentialResponse::<$cs>::deserialize(&r2)?, ClientLoginFinishParameters::default())?;
                    let _ = cf; Ok(true)
                })();
                if let Ok(true) = done { acc.hit(stringify!($cs), "client completed although the response was altered in transit", json!({"byte": i, "mask": bit, "response_len": resp.len()})); }
            } }
            Ok(())
        })();
        if let Err(e) = r { acc.hit(stringify!($cs), "setup failed", json!({"error": format!("{:?}", e)})); }
    }};
}

// ------------------------------------------------------------------------------------------------ C09: executable twin of the oracle
/// The RFC 9807 / RFC 9497 formulas of verus/spec_rfc.rs, executable: primitives straight from sha2 / hkdf / hmac / voprf and the
/// KeGroup public API.  Every output of the real crate is recomputed from the inputs and from the RECORDED tape segments and compared.
/// This samples (a) the oracle's transcription and (b) the prelude's assumed contracts (HKDF multi-info == concatenation, HMAC verify,
/// voprf finalize / blind_evaluate / derive_key, order and size of the tape reads).  Testing, not proof.
pub trait HasHash { type H: digest::Digest + digest::core_api::BlockSizeUser + Clone + digest::FixedOutputReset + Default + digest::HashMarker + digest::OutputSizeUser + digest::Update; }
struct Rec { inner: StdRng, chunks: Vec<Vec<u8>> }
impl Rec { fn new(seed: u64) -> Self { Rec { inner: StdRng::seed_from_u64(seed), chunks: vec![] } } }
impl RngCore for Rec {
    fn next_u32(&mut self) -> u32 { let mut b = [0u8; 4]; self.fill_bytes(&mut b); u32::from_le_bytes(b) }
    fn next_u64(&mut self) -> u64 { let mut b = [0u8; 8]; self.fill_bytes(&mut b); u64::from_le_bytes(b) }
    fn fill_bytes(&mut self, dest: &mut [u8]) { self.inner.fill_bytes(dest); self.chunks.push(dest.to_vec()); }
    fn try_fill_bytes(&mut self, dest: &mut [u8]) -> Result<(), rand::Error> { self.fill_bytes(dest); Ok(()) }
}
impl rand::CryptoRng for Rec {}
fn i2osp2(n: usize) -> Vec<u8> { vec![(n >> 8) as u8, (n & 0xff) as u8] }
fn cat(parts: &[&[u8]]) -> Vec<u8> { let mut v = vec![]; for p in parts { v.extend_from_slice(p); } v }

macro_rules! gen_c09 {
    ($cs:ident, $h:ty, $acc:expr) => {{
        let acc: &mut Acc = $acc;
        type H = $h;
        type KG = <$cs as CipherSuite>::KeGroup;
        type OC = <$cs as CipherSuite>::OprfCs;
        use opaque_ke::key_exchange::group::KeGroup as _KG;
        use opaque_ke::keypair::SecretKey as _SK;
        use digest::Digest as _D;
        use hmac::Mac as _M;
        let nh = <H as digest::OutputSizeUser>::output_size();
        let nsk = <KG as _KG>::SkLen::to_usize();
        let npk = <KG as _KG>::PkLen::to_usize();
        let expand = |prk: &[u8], info: &[u8], len: usize| -> Vec<u8> { let mut out = vec![0u8; len]; hkdf::Hkdf::<H>::from_prk(prk).unwrap().expand(info, &mut out).unwrap(); out };
        let extract = |ikm: &[u8]| -> Vec<u8> { hkdf::Hkdf::<H>::extract(None, ikm).0.to_vec() };
        let mac = |key: &[u8], msg: &[u8]| -> Vec<u8> { let mut m = <hmac::SimpleHmac<H> as _M>::new_from_slice(key).unwrap(); m.update(msg); m.finalize().into_bytes().to_vec() };
        let hash = |m: &[u8]| -> Vec<u8> { <H as _D>::digest(m).to_vec() };
        let expand_label = |secret: &[u8], label: &[u8], ctx: &[u8]| -> Vec<u8> {
            let full = cat(&[b"OPAQUE-", label]);
            expand(secret, &cat(&[&i2osp2(nh), &[full.len() as u8], &full, &[ctx.len() as u8], ctx]), nh)
        };
        let big = vec![0x42u8; 300];
        let longpw: Vec<u8> = (0..65535u32).map(|i| (i % 251) as u8).collect();   // the longest password the OPRF encodes
        let cases: Vec<(Params, bool)> = vec![
            (Params { pw: &longpw, cred: b"long", idu: None, ids: None, ctx: None }, true),
            (Params { pw: b"", cred: b"", idu: None, ids: None, ctx: None }, true),
            (Params { pw: b"CorrectHorseBatteryStaple", cred: b"1234", idu: Some(b"alice"), ids: Some(b"bob"), ctx: Some(b"OPAQUE-POC") }, true),
            (Params { pw: b"pw", cred: &big, idu: None, ids: Some(&big), ctx: Some(&big) }, true),
            (Params { pw: b"pw", cred: b"x", idu: Some(&big[..256]), ids: None, ctx: None }, false),   // login without a record
        ];
        for (ci, (p, with_record)) in cases.iter().enumerate() {
            acc.tried += 1;
            let mut bad = |what: &str| acc.hit(stringify!($cs), "output differs from the RFC 9807 formula", json!({"case": ci, "value": what}));
            let r = (|| -> Result<(), ProtocolError> {
                let mut r0 = Rec::new(9000 + ci as u64);
                let setup = ServerSetup::<$cs>::new(&mut r0);
                if r0.chunks.iter().map(|c| c.len()).collect::<Vec<_>>() != vec![nsk, nh, nsk] { bad("ServerSetup::new tape reads"); }
                let oprf_seed = r0.chunks[1].clone();
                let ssk = setup.keypair().private().clone();
                let spk = setup.keypair().public().serialize().to_vec();
                let fake_sk = <KG as _KG>::derive_auth_keypair::<OC>(generic_array::GenericArray::clone_from_slice(&r0.chunks[2])).map_err(|e| ProtocolError::from(e))?;
                let fake_pk = <KG as _KG>::serialize_pk(<KG as _KG>::public_key(fake_sk)).to_vec();
                let oprf_key = voprf::derive_key::<OC>(&expand(&oprf_seed, &cat(&[p.cred, b"OprfKey"]), <<OC as voprf::CipherSuite>::Group as voprf::Group>::ScalarLen::to_usize()), b"OPAQUE-DeriveKeyPair", voprf::Mode::Oprf)?;
                let oprf_srv = voprf::OprfServer::<OC>::new_with_key(&<<OC as voprf::CipherSuite>::Group as voprf::Group>::serialize_scalar(oprf_key))?;
                // ---- registration
                let mut r1 = Rec::new(9100 + ci as u64);
                let c = ClientRegistration::<$cs>::start(&mut r1, p.pw)?;
                let cst = c.state.serialize();
                let nok = <<OC as voprf::CipherSuite>::Group as voprf::Group>::ScalarLen::to_usize();
                let oc = voprf::OprfClient::<OC>::deserialize(&cst[..nok])?;
                let blinded = voprf::BlindedElement::<OC>::deserialize(&c.message.serialize())?;
                let s = ServerRegistration::<$cs>::start(&setup, c.message, p.cred)?;
                let eval = oprf_srv.blind_evaluate(&blinded);
                if s.message.serialize().to_vec() != cat(&[&eval.serialize(), &spk]) { bad("registration response"); }
                let mut r2 = Rec::new(9200 + ci as u64);
                let f = c.state.finish(&mut r2, p.pw, s.message, ClientRegistrationFinishParameters::new(Identifiers { client: p.idu, server: p.ids }, None))?;
                if r2.chunks.iter().map(|c| c.len()).collect::<Vec<_>>() != vec![32] { bad("ClientRegistration::finish tape reads"); }
                let y = oc.finalize(p.pw, &eval)?.to_vec();
                let rp = extract(&cat(&[&y, &y]));   // Identity KSF: Stretch(y) = y
                let mk = expand(&rp, b"MaskingKey", nh);
                let nonce = r2.chunks[0].clone();
                let auth_key = expand(&rp, &cat(&[&nonce, b"AuthKey"]), nh);
                let export_key = expand(&rp, &cat(&[&nonce, b"ExportKey"]), nh);
                let cseed = expand(&rp, &cat(&[&nonce, b"PrivateKey"]), nsk);
                let csk = <KG as _KG>::derive_auth_keypair::<OC>(generic_array::GenericArray::clone_from_slice(&cseed)).map_err(|e| ProtocolError::from(e))?;
                let cpk = <KG as _KG>::serialize_pk(<KG as _KG>::public_key(csk)).to_vec();
                let idu: Vec<u8> = p.idu.map(|x| x.to_vec()).unwrap_or(cpk.clone());
                let ids: Vec<u8> = p.ids.map(|x| x.to_vec()).unwrap_or(spk.clone());
                let tag = mac(&auth_key, &cat(&[&nonce, &spk, &i2osp2(ids.len()), &ids, &i2osp2(idu.len()), &idu]));
                let upload = cat(&[&cpk, &mk, &nonce, &tag]);
                if f.message.serialize().to_vec() != upload { bad("registration upload / password file (client key, masking key, envelope nonce, auth tag)"); }
                if f.export_key.to_vec() != export_key { bad("export key (registration)"); }
                let file = ServerRegistration::<$cs>::finish(f.message);
                // ---- login
                let mut r3 = Rec::new(9300 + ci as u64);
                let cl = ClientLogin::<$cs>::start(&mut r3, p.pw)?;
                let n3 = r3.chunks.len();
                if n3 < 3 || r3.chunks[n3 - 2].len() != nsk || r3.chunks[n3 - 1].len() != 32 { bad("ClientLogin::start tape reads"); }
                let cesk = <KG as _KG>::derive_auth_keypair::<OC>(generic_array::GenericArray::clone_from_slice(&r3.chunks[n3 - 2])).map_err(|e| ProtocolError::from(e))?;
                let cepk = <KG as _KG>::public_key(cesk);
                let creq = cl.message.serialize().to_vec();
                let noe = creq.len() - 32 - npk;
                if creq[noe..] != cat(&[&r3.chunks[n3 - 1], &<KG as _KG>::serialize_pk(cepk)])[..] { bad("credential request (client nonce, ephemeral key)"); }
                let clst = cl.state.serialize();
                let oc2 = voprf::OprfClient::<OC>::deserialize(&clst[..nok])?;
                let blinded2 = voprf::BlindedElement::<OC>::deserialize(&creq[..noe])?;
                let ctx: Vec<u8> = p.ctx.map(|x| x.to_vec()).unwrap_or_default();
                let mut r4 = Rec::new(9400 + ci as u64);
                let sl = ServerLogin::<$cs>::start(&mut r4, &setup, if *with_record { Some(file.clone()) } else { None }, cl.message, p.cred,
                    ServerLoginStartParameters { context: p.ctx, identifiers: Identifiers { client: p.idu, server: p.ids } })?;
                let want_reads = if *with_record { vec![32, nsk, 32] } else { vec![nh, 32, nsk, 32] };
                if r4.chunks.iter().map(|c| c.len()).collect::<Vec<_>>() != want_reads { bad("ServerLogin::start tape reads"); }
                let off = if *with_record { 0 } else { 1 };
                let (rec_mk, rec_cpk, rec_env) = if *with_record { (mk.clone(), cpk.clone(), cat(&[&nonce, &tag])) } else { (r4.chunks[0].clone(), fake_pk.clone(), vec![0u8; 32 + nh]) };
                let mnonce = r4.chunks[off].clone();
                let eval2 = oprf_srv.blind_evaluate(&blinded2);
                let pad = expand(&rec_mk, &cat(&[&mnonce, b"CredentialResponsePad"]), npk + 32 + nh);
                let masked: Vec<u8> = pad.iter().zip(cat(&[&spk, &rec_env]).iter()).map(|(a, b)| a ^ b).collect();
                let sesk = <KG as _KG>::derive_auth_keypair::<OC>(generic_array::GenericArray::clone_from_slice(&r4.chunks[off + 1])).map_err(|e| ProtocolError::from(e))?;
                let sepk = <KG as _KG>::serialize_pk(<KG as _KG>::public_key(sesk)).to_vec();
                let snonce = r4.chunks[off + 2].clone();
                let idu_s: Vec<u8> = p.idu.map(|x| x.to_vec()).unwrap_or(rec_cpk.clone());
                let pre = cat(&[b"OPAQUEv1-", &i2osp2(ctx.len()), &ctx, &i2osp2(idu_s.len()), &idu_s, &creq, &i2osp2(ids.len()), &ids, &eval2.serialize(), &mnonce, &masked, &snonce, &sepk]);
                let dh1 = <KG as _KG>::diffie_hellman(cepk, sesk);
                let dh2 = ssk.diffie_hellman(opaque_ke::keypair::PublicKey::<KG>::deserialize(&<KG as _KG>::serialize_pk(cepk)).map_err(|e| ProtocolError::from(e))?).map_err(|e| ProtocolError::from(e))?;
                let dh3 = <KG as _KG>::diffie_hellman(<KG as _KG>::deserialize_pk(&rec_cpk).map_err(|e| ProtocolError::from(e))?, sesk);
                let prk = extract(&cat(&[&dh1, &dh2, &dh3]));
                let th = hash(&pre);
                let hs = expand_label(&prk, b"HandshakeSecret", &th);
                let skey = expand_label(&prk, b"SessionKey", &th);
                let km2 = expand_label(&hs, b"ServerMAC", b"");
                let km3 = expand_label(&hs, b"ClientMAC", b"");
                let smac = mac(&km2, &th);
                if sl.message.serialize().to_vec() != cat(&[&eval2.serialize(), &mnonce, &masked, &snonce, &sepk, &smac]) { bad("credential response (evaluation, masking nonce, masked response, server nonce, ephemeral key, server MAC)"); }
                let th2 = hash(&cat(&[&pre, &smac]));
                if sl.state.serialize().to_vec() != cat(&[&km3, &th2, &skey]) { bad("server pending-login state (Km3, transcript hash, session key)"); }
                if *with_record {
                    let cf = cl.state.finish(p.pw, sl.message, ClientLoginFinishParameters::new(p.ctx, Identifiers { client: p.idu, server: p.ids }, None))?;
                    let y2 = oc2.finalize(p.pw, &eval2)?.to_vec();
                    if y2 != y { bad("OPRF output differs between registration and login"); }
                    if cf.message.serialize().to_vec() != mac(&km3, &th2) { bad("credential finalization (client MAC)"); }
                    if cf.session_key.to_vec() != skey { bad("session key"); }
                    if cf.export_key.to_vec() != export_key { bad("export key (login)"); }
                }
                Ok(())
            })();
            if let Err(e) = r { acc.hit(stringify!($cs), "run failed", json!({"case": ci, "error": format!("{:?}", e)})); }
        }
    }};
}
fn oracle_twin(acc: &mut Acc) {
    use sha2::{Sha256, Sha384, Sha512};
    gen_c09!(R_R, Sha512, acc); gen_c09!(R_P256, Sha512, acc); gen_c09!(R_P384, Sha512, acc); gen_c09!(R_P521, Sha512, acc); gen_c09!(R_X, Sha512, acc);
    gen_c09!(P256_R, Sha256, acc); gen_c09!(P256_P256, Sha256, acc); gen_c09!(P256_P384, Sha256, acc); gen_c09!(P256_P521, Sha256, acc); gen_c09!(P256_X, Sha256, acc);
    gen_c09!(P384_R, Sha384, acc); gen_c09!(P384_P256, Sha384, acc); gen_c09!(P384_P384, Sha384, acc); gen_c09!(P384_P521, Sha384, acc); gen_c09!(P384_X, Sha384, acc);
    gen_c09!(P521_R, Sha512, acc); gen_c09!(P521_P256, Sha512, acc); gen_c09!(P521_P384, Sha512, acc); gen_c09!(P521_P521, Sha512, acc); gen_c09!(P521_X, Sha512, acc);
}

fn run(gen: &str) -> Value {
    // a panic of the library on the property's own inputs (outside the places where a generator expects and catches one) is a finding by itself
    let g = gen.to_string();
    match std::panic::catch_unwind(move || run_inner(&g)) {
        Ok(v) => v,
        Err(e) => {
            let msg = e.downcast_ref::<String>().cloned().or_else(|| e.downcast_ref::<&str>().map(|s| s.to_string())).unwrap_or_else(|| "panic".into());
            json!({"generator": gen, "found": true, "witness": [{"suite": "?", "what": "PANIC in the library while the generator ran its inputs (an error value or a result was expected)", "detail": {"panic": msg}}], "tried": 0, "suites": 20})
        }
    }
}
fn run_inner(gen: &str) -> Value {
    let mut acc = Acc { tried: 0, found: vec![] };
    match gen {
        "c01" => { all_suites!(gen_c01, &mut acc); honest_with_ksf(&mut acc); }
        "c09" => { oracle_twin(&mut acc); argon2_adapter(&mut acc); }
        "c14" => { all_suites!(gen_c14, &mut acc); }
        "c17" => { all_suites!(gen_c17, &mut acc); }
        "c16" => { all_suites!(gen_c16, &mut acc); }
        "c15" => { ksf_probe(&mut acc); argon2_honest(&mut acc); }
        "c18" => { external_key_probe(&mut acc); external_key_faults(&mut acc); }
        "c02" => { all_suites!(gen_c02, &mut acc); }
        "c03" => { all_suites!(gen_c03, &mut acc); }
        "c04" => { all_suites!(gen_c04, &mut acc); }
        "c05" => { all_suites!(gen_c05, &mut acc); }
        "c06" => { all_suites!(gen_c06, &mut acc); }
        "c07" => { all_suites!(gen_c07, &mut acc); }
        "c08" => { all_suites!(gen_c08, &mut acc); }
        "c10" => { all_suites!(gen_c10, &mut acc); key_length_probes(&mut acc); }
        "c12" => { all_suites!(gen_c12, &mut acc); all_suites!(gen_c12dec, &mut acc); }
        "c10serde" => { all_suites!(gen_c10serde, &mut acc); }
        "c13" => { all_suites!(gen_c13, &mut acc); }
        "c11" | "c19" => { group_probes(&mut acc); }
        "c18ext" => { external_key_probe(&mut acc); }
        _ => return json!({"error": format!("unknown generator {}", gen)}),
    }
    json!({"generator": gen, "found": !acc.found.is_empty(), "witness": acc.found, "tried": acc.tried, "suites": 20})
}

// ------------------------------------------------------------------------------------------------ group-level probes (C11 / C19)
fn group_probes(acc: &mut Acc) {
    use opaque_ke::key_exchange::group::KeGroup;
    use opaque_ke::keypair::PublicKey;
    // Curve25519 small-order points, canonical and non-reduced, with and without bit 255
    let small: Vec<&str> = vec![
        "0000000000000000000000000000000000000000000000000000000000000000",
        "0100000000000000000000000000000000000000000000000000000000000000",
        "e0eb7a7c3b41b8ae1656e3faf19fc46ada098deb9c32b1fd866205165f49b800",
        "5f9c95bca3508c24b1d0b1559c83ef5b04445cc4581c8e86d8224eddd09f1157",
        "ecffffffffffffffffffffffffffffffffffffffffffffffffffffffffffff7f",
        "edffffffffffffffffffffffffffffffffffffffffffffffffffffffffffff7f",
        "eeffffffffffffffffffffffffffffffffffffffffffffffffffffffffffff7f",
    ];
    for s in small {
        for hi in [0u8, 0x80] {
            let mut b = hex::decode(s).unwrap(); b[31] |= hi;
            acc.tried += 1;
            if PublicKey::<opaque_ke::Curve25519>::deserialize(&b).is_ok() {
                acc.hit("*_X", "small-order Curve25519 point accepted as a public key", json!({"encoding": hex::encode(&b)}));
            }
        }
    }
    // Curve25519: DeriveDiffieHellmanKeyPair is the RFC 7748 clamp of the seed, for every seed (boundary seeds included)
    {
        let clamp = |mut b: [u8; 32]| -> [u8; 32] { b[0] &= 248; b[31] &= 127; b[31] |= 64; b };
        let mut seeds: Vec<[u8; 32]> = vec![[0u8; 32], [0xffu8; 32], { let mut s = [0u8; 32]; s[0] = 7; s }, { let mut s = [0u8; 32]; s[31] = 0x80; s }, { let mut s = [0u8; 32]; s[31] = 0x40; s }];
        let mut rng = StdRng::seed_from_u64(1919);
        for _ in 0..32 { let mut s = [0u8; 32]; rng.fill_bytes(&mut s); seeds.push(s); }
        for seed in seeds {
            acc.tried += 1;
            match <opaque_ke::Curve25519 as KeGroup>::derive_auth_keypair::<opaque_ke::Ristretto255>(generic_array::GenericArray::clone_from_slice(&seed)) {
                Ok(sk) => {
                    let got = <opaque_ke::Curve25519 as KeGroup>::serialize_sk(sk).to_vec();
                    if got != clamp(seed).to_vec() { acc.hit("*_X", "Curve25519 key derivation differs from the RFC 7748 clamp of the seed", json!({"seed": hx(&seed), "got": hx(&got)})); }
                    if <opaque_ke::Curve25519 as KeGroup>::deserialize_sk(&got).is_err() { acc.hit("*_X", "derived Curve25519 key is not accepted by its own decoder", json!({"seed": hx(&seed)})); }
                }
                Err(e) => acc.hit("*_X", "Curve25519 key derivation refuses a seed (every seed has a valid non-zero clamped key)", json!({"seed": hx(&seed), "error": format!("{:?}", e)})),
            }
        }
    }
    // identity / zero encodings for the other groups
    acc.tried += 1;
    if PublicKey::<opaque_ke::Ristretto255>::deserialize(&[0u8; 32]).is_ok() { acc.hit("*_R", "ristretto identity accepted", json!({})); }
    acc.tried += 1;
    if <opaque_ke::Ristretto255 as KeGroup>::deserialize_sk(&[0u8; 32]).is_ok() { acc.hit("*_R", "zero scalar accepted", json!({})); }
    macro_rules! nist { ($c:ty, $n:expr, $name:expr) => {{
        let mut rng = StdRng::seed_from_u64(19);
        let sk = <$c as KeGroup>::random_sk(&mut rng);
        let pk = <$c as KeGroup>::serialize_pk(<$c as KeGroup>::public_key(sk)).to_vec();
        for tag in 0u8..=255 {
            let mut v = pk.clone(); v[0] = tag; acc.tried += 1;
            if let Ok(p) = <$c as KeGroup>::deserialize_pk(&v) {
                let re = <$c as KeGroup>::serialize_pk(p).to_vec();
                if re != v { acc.hit($name, "public key with non-canonical tag accepted", json!({"tag": tag, "input": hx(&v), "reencoded": hx(&re)})); }
            }
        }
        acc.tried += 2;
        if <$c as KeGroup>::deserialize_sk(&vec![0u8; $n]).is_ok() { acc.hit($name, "zero scalar accepted", json!({})); }
        if <$c as KeGroup>::deserialize_sk(&vec![0xffu8; $n]).is_ok() { acc.hit($name, "out-of-range scalar accepted", json!({})); }
        let mut z = vec![0u8; $n + 1]; z[0] = 0; acc.tried += 1;
        if <$c as KeGroup>::deserialize_pk(&z).is_ok() { acc.hit($name, "identity / all-zero point accepted", json!({})); }
        // DH symmetry and public-key consistency on extreme scalars
        let mut one = vec![0u8; $n]; one[$n - 1] = 1;
        let s1 = <$c as KeGroup>::deserialize_sk(&one).unwrap();
        let a = <$c as KeGroup>::diffie_hellman(<$c as KeGroup>::public_key(sk), s1);
        let b = <$c as KeGroup>::diffie_hellman(<$c as KeGroup>::public_key(s1), sk);
        acc.tried += 1;
        if a != b { acc.hit($name, "DH not symmetric", json!({})); }
    }}; }
    nist!(p256::NistP256, 32, "*_P256");
    nist!(p384::NistP384, 48, "*_P384");
    nist!(p521::NistP521, 66, "*_P521");
}

/// C10 for the key-pair API: every slice length 0 ..= n + 2 given to the group's scalar / point decoders and to KeyPair::from_private_key_slice
fn key_length_probes(acc: &mut Acc) {
    use opaque_ke::key_exchange::group::KeGroup;
    macro_rules! sweep { ($c:ty, $n:expr, $name:expr) => {{
        let mut rng = StdRng::seed_from_u64(19);
        let sk = <$c as KeGroup>::random_sk(&mut rng);
        let pk = <$c as KeGroup>::serialize_pk(<$c as KeGroup>::public_key(sk)).to_vec();
        // every slice length 0 ..= n + 2: a scalar / point decoder accepts exactly one length, and what it accepts re-encodes to itself
        for len in 0..=($n + 2usize) {
            let mut v = vec![0u8; len]; if len > 0 { v[len - 1] = 1; }
            acc.tried += 1;
            if let Ok(s) = <$c as KeGroup>::deserialize_sk(&v) {
                let re = <$c as KeGroup>::serialize_sk(s).to_vec();
                if re != v { acc.hit($name, "KeGroup::deserialize_sk accepts a byte string that does not re-encode to itself (wrong length)", json!({"input_len": len, "input": hx(&v), "reencoded": hx(&re)})); }
                if let Ok(kp) = opaque_ke::keypair::KeyPair::<$c>::from_private_key_slice(&v) {
                    use opaque_ke::keypair::SecretKey as _;
                    let re2 = kp.private().serialize().to_vec();
                    if re2 != v { acc.hit($name, "KeyPair::from_private_key_slice accepts a private key encoding that does not re-encode to itself", json!({"input_len": len, "input": hx(&v), "reencoded": hx(&re2)})); }
                }
            }
            let t: Vec<u8> = pk.iter().cloned().chain([0u8, 0u8]).take(len).collect();
            if t.len() == len { acc.tried += 1;
                if let Ok(p) = <$c as KeGroup>::deserialize_pk(&t) { let re = <$c as KeGroup>::serialize_pk(p).to_vec(); if re != t { acc.hit($name, "deserialize_pk accepts a truncated / extended encoding", json!({"input_len": len})); } } }
        }
    }}; }
    sweep!(p256::NistP256, 32, "*_P256");
    sweep!(p384::NistP384, 48, "*_P384");
    sweep!(p521::NistP521, 66, "*_P521");
    sweep!(opaque_ke::Ristretto255, 32, "*_R");
    sweep!(opaque_ke::Curve25519, 32, "*_X");
}

// ------------------------------------------------------------------------------------------------ external server key (C13 / C18)
mod extkey {
    use super::*;
    use generic_array::typenum::U8;
    use generic_array::GenericArray;
    use opaque_ke::errors::InternalError;
    use opaque_ke::key_exchange::group::KeGroup;
    use opaque_ke::keypair::{PrivateKey, PublicKey, SecretKey};
    /// a key held "elsewhere": the handle serializes to 8 bytes (an index into a key store), not to the scalar
    #[derive(Clone)]
    pub struct Handle(pub u64);
    pub static STORE: std::sync::Mutex<Vec<Vec<u8>>> = std::sync::Mutex::new(Vec::new());
    thread_local! { pub static CALLS: std::cell::Cell<u32> = std::cell::Cell::new(0); pub static FAIL_AT: std::cell::Cell<u32> = std::cell::Cell::new(0); }
    fn tick() -> bool { let n = CALLS.with(|c| { c.set(c.get() + 1); c.get() }); FAIL_AT.with(|f| f.get()) == n }
    impl SecretKey<opaque_ke::Ristretto255> for Handle {
        type Error = String;
        type Len = U8;
        fn diffie_hellman(&self, pk: PublicKey<opaque_ke::Ristretto255>) -> Result<GenericArray<u8, <opaque_ke::Ristretto255 as KeGroup>::PkLen>, InternalError<String>> {
            if tick() { return Err(InternalError::Custom("hsm failure in diffie_hellman".into())); }
            let sk = STORE.lock().unwrap()[self.0 as usize].clone();
            PrivateKey::<opaque_ke::Ristretto255>::deserialize(&sk).unwrap().diffie_hellman(pk).map_err(|_| InternalError::Custom("dh".into()))
        }
        fn public_key(&self) -> Result<PublicKey<opaque_ke::Ristretto255>, InternalError<String>> {
            if tick() { return Err(InternalError::Custom("hsm failure in public_key".into())); }
            let sk = STORE.lock().unwrap()[self.0 as usize].clone();
            PrivateKey::<opaque_ke::Ristretto255>::deserialize(&sk).unwrap().public_key().map_err(|_| InternalError::Custom("pk".into()))
        }
        fn serialize(&self) -> GenericArray<u8, U8> { GenericArray::from(self.0.to_be_bytes()) }
        fn deserialize(input: &[u8]) -> Result<Self, InternalError<String>> {
            let a: [u8; 8] = input.try_into().map_err(|_| InternalError::Custom(format!("handle must be 8 bytes, got {}", input.len())))?;
            Ok(Handle(u64::from_be_bytes(a)))
        }
    }
}
// ------------------------------------------------------------------------------------------------ key stretching (C15)
mod toyksf {
    use generic_array::{ArrayLength, GenericArray};
    use opaque_ke::errors::InternalError;
    use opaque_ke::ksf::Ksf;
    use std::cell::Cell;
    thread_local! { pub static CALLS: Cell<u32> = Cell::new(0); pub static FAIL_AT: Cell<u32> = Cell::new(0); }
    /// a parameterised, non-identity stretching function that counts its calls and can be armed to fail at the n-th call
    pub struct Toy(pub u8);
    impl Default for Toy { fn default() -> Self { Toy(0x5a) } }
    impl Ksf for Toy {
        fn hash<L: ArrayLength<u8>>(&self, input: GenericArray<u8, L>) -> Result<GenericArray<u8, L>, InternalError> {
            let n = CALLS.with(|c| { c.set(c.get() + 1); c.get() });
            if FAIL_AT.with(|f| f.get()) == n { return Err(InternalError::KsfError); }
            let mut out = input; for (i, b) in out.iter_mut().enumerate() { *b = b.wrapping_mul(3) ^ self.0 ^ (i as u8); }
            Ok(out)
        }
    }
}
macro_rules! ksf_suite { ($name:ident, $oprf:ty, $ke:ty) => { pub struct $name; impl CipherSuite for $name { type OprfCs = $oprf; type KeGroup = $ke; type KeyExchange = TripleDh; type Ksf = toyksf::Toy; } }; }
ksf_suite!(K_R_R, opaque_ke::Ristretto255, opaque_ke::Ristretto255);
ksf_suite!(K_P256_X, p256::NistP256, opaque_ke::Curve25519);
macro_rules! gen_c15 {
    ($cs:ident, $acc:expr) => {{
        let acc: &mut Acc = $acc;
        use toyksf::{Toy, CALLS, FAIL_AT};
        let d = Toy::default(); let other = Toy(0x11);
        // (ksf at registration, ksf at login, must succeed)
        let combos: Vec<(Option<&Toy>, Option<&Toy>, bool, &str)> = vec![(None, None, true, "absent / absent"), (None, Some(&d), true, "absent / explicit default"), (Some(&d), None, true, "explicit default / absent"),
            (Some(&other), Some(&other), true, "equal non-default parameters"), (Some(&other), None, false, "different parameters"), (None, Some(&other), false, "different parameters"), (Some(&other), Some(&Toy(0x12)), false, "different parameters")];
        for (i, (kr, kl, must, what)) in combos.iter().enumerate() {
            acc.tried += 1;
            FAIL_AT.with(|f| f.set(0));
            let r = (|| -> Result<bool, ProtocolError> {
                let mut rng = StdRng::seed_from_u64(15000 + i as u64);
                let setup = ServerSetup::<$cs>::new(&mut rng);
                let c = ClientRegistration::<$cs>::start(&mut rng, b"pw")?;
                let s = ServerRegistration::<$cs>::start(&setup, c.message, b"id")?;
                CALLS.with(|c| c.set(0));
                let f = c.state.finish(&mut rng, b"pw", s.message, ClientRegistrationFinishParameters::new(Identifiers::default(), *kr))?;
                if CALLS.with(|c| c.get()) != 1 { acc.hit(stringify!($cs), "KSF not evaluated exactly once in ClientRegistration::finish", json!({"calls": CALLS.with(|c| c.get()), "case": what})); }
                let file = ServerRegistration::<$cs>::finish(f.message);
                let cl = ClientLogin::<$cs>::start(&mut rng, b"pw")?;
                let sl = ServerLogin::<$cs>::start(&mut rng, &setup, Some(file), cl.message, b"id", ServerLoginStartParameters::default())?;
                CALLS.with(|c| c.set(0));
                let out = cl.state.finish(b"pw", sl.message, ClientLoginFinishParameters::new(None, Identifiers::default(), *kl));
                if CALLS.with(|c| c.get()) != 1 { acc.hit(stringify!($cs), "KSF not evaluated exactly once in ClientLogin::finish", json!({"calls": CALLS.with(|c| c.get()), "case": what})); }
                Ok(out.is_ok())
            })();
            match r { Ok(ok) => if ok != *must { acc.hit(stringify!($cs), "KSF selection / binding", json!({"case": what, "login_succeeded": ok, "expected": must})); },
                      Err(e) => acc.hit(stringify!($cs), "run failed", json!({"case": what, "error": format!("{:?}", e)})) }
        }
        // an explicitly passed instance that fails is an error too (no silent fall-back to the default instance)
        for in_login in [false, true] {
            acc.tried += 1;
            let bad = Toy(0x77);
            let r = (|| -> Result<bool, ProtocolError> {
                let mut rng = StdRng::seed_from_u64(15700);
                let setup = ServerSetup::<$cs>::new(&mut rng);
                let c = ClientRegistration::<$cs>::start(&mut rng, b"pw")?;
                let s = ServerRegistration::<$cs>::start(&setup, c.message, b"id")?;
                CALLS.with(|c| c.set(0)); FAIL_AT.with(|f| f.set(if in_login { 0 } else { 1 }));
                let fr = c.state.finish(&mut rng, b"pw", s.message, ClientRegistrationFinishParameters::new(Identifiers::default(), if in_login { None } else { Some(&bad) }));
                if !in_login { return Ok(fr.is_err()); }
                let file = ServerRegistration::<$cs>::finish(fr?.message);
                let cl = ClientLogin::<$cs>::start(&mut rng, b"pw")?;
                let sl = ServerLogin::<$cs>::start(&mut rng, &setup, Some(file), cl.message, b"id", ServerLoginStartParameters::default())?;
                CALLS.with(|c| c.set(0)); FAIL_AT.with(|f| f.set(1));
                Ok(cl.state.finish(b"pw", sl.message, ClientLoginFinishParameters::new(None, Identifiers::default(), Some(&bad))).is_err())
            })();
            FAIL_AT.with(|f| f.set(0));
            match r { Ok(true) => {}, Ok(false) => acc.hit(stringify!($cs), "an explicitly passed key-stretching instance failed, yet the finish step returned Ok (silent fall-back)", json!({"in_login": in_login})),
                      Err(e) => acc.hit(stringify!($cs), "run failed", json!({"error": format!("{:?}", e)})) }
        }
        // a failing KSF is returned as an error (registration finish and login finish)
        for fail_in_login in [false, true] {
            acc.tried += 1;
            let r = (|| -> Result<(bool, bool), ProtocolError> {
                let mut rng = StdRng::seed_from_u64(15500);
                let setup = ServerSetup::<$cs>::new(&mut rng);
                let c = ClientRegistration::<$cs>::start(&mut rng, b"pw")?;
                let s = ServerRegistration::<$cs>::start(&setup, c.message, b"id")?;
                CALLS.with(|c| c.set(0)); FAIL_AT.with(|f| f.set(if fail_in_login { 0 } else { 1 }));
                let fr = c.state.finish(&mut rng, b"pw", s.message, ClientRegistrationFinishParameters::default());
                if !fail_in_login { return Ok((matches!(fr, Err(ProtocolError::LibraryError(opaque_ke::errors::InternalError::KsfError))), true)); }
                let file = ServerRegistration::<$cs>::finish(fr?.message);
                let cl = ClientLogin::<$cs>::start(&mut rng, b"pw")?;
                let sl = ServerLogin::<$cs>::start(&mut rng, &setup, Some(file), cl.message, b"id", ServerLoginStartParameters::default())?;
                CALLS.with(|c| c.set(0)); FAIL_AT.with(|f| f.set(1));
                let out = cl.state.finish(b"pw", sl.message, ClientLoginFinishParameters::default());
                Ok((true, matches!(out, Err(ProtocolError::LibraryError(opaque_ke::errors::InternalError::KsfError)))))
            })();
            FAIL_AT.with(|f| f.set(0));
            match r { Ok((a, b)) => if !(a && b) { acc.hit(stringify!($cs), "a failing KSF is not returned as Err(LibraryError(KsfError))", json!({"in_login": fail_in_login})); },
                      Err(e) => acc.hit(stringify!($cs), "run failed", json!({"error": format!("{:?}", e)})) }
        }
    }};
}
/// C01 with a non-default key-stretching instance passed explicitly on both sides (and absent on both sides)
macro_rules! gen_c01_ksf {
    ($cs:ident, $acc:expr) => {{
        let acc: &mut Acc = $acc;
        let k = toyksf::Toy(0x33);
        for (i, ksf) in [None, Some(&k)].iter().enumerate() {
            acc.tried += 1;
            toyksf::FAIL_AT.with(|f| f.set(0));
            let r = (|| -> Result<(), ProtocolError> {
                let mut rng = StdRng::seed_from_u64(1100 + i as u64);
                let setup = ServerSetup::<$cs>::new(&mut rng);
                let c = ClientRegistration::<$cs>::start(&mut rng, b"pw")?;
                let s = ServerRegistration::<$cs>::start(&setup, c.message, b"id")?;
                let f = c.state.finish(&mut rng, b"pw", s.message, ClientRegistrationFinishParameters::new(Identifiers::default(), *ksf))?;
                let file = ServerRegistration::<$cs>::finish(f.message);
                let cl = ClientLogin::<$cs>::start(&mut rng, b"pw")?;
                let sl = ServerLogin::<$cs>::start(&mut rng, &setup, Some(file), cl.message, b"id", ServerLoginStartParameters::default())?;
                let cf = cl.state.finish(b"pw", sl.message, ClientLoginFinishParameters::new(None, Identifiers::default(), *ksf))?;
                let sf = sl.state.finish(cf.message)?;
                if sf.session_key != cf.session_key || cf.export_key != f.export_key { acc.hit(stringify!($cs), "keys differ", json!({"explicit_ksf": ksf.is_some()})); }
                Ok(())
            })();
            if let Err(e) = r { acc.hit(stringify!($cs), "honest run with the same key-stretching instance on both sides failed", json!({"explicit_ksf": ksf.is_some(), "error": format!("{:?}", e)})); }
        }
    }};
}
fn honest_with_ksf(acc: &mut Acc) { gen_c01_ksf!(K_R_R, acc); gen_c01_ksf!(K_P256_X, acc); }
/// RFC 9807 section 7 / 10: the Argon2 adapter is Argon2(params; password = OPRF output, salt = 16 zero bytes), output as long as the input
/// (small memory parameters so that the probe is fast; the adapter does not look at them)
fn argon2_adapter(acc: &mut Acc) {
    use generic_array::{typenum::{U32, U64}, GenericArray};
    use opaque_ke::ksf::Ksf;
    // instances that differ in the cost parameters, and instances that differ OUTSIDE them (variant, version, secret key)
    let mut insts: Vec<(String, argon2::Argon2<'static>)> = vec![];
    for (m, t, p) in [(8u32, 1u32, 1u32), (16, 2, 1), (32, 1, 2)] {
        insts.push((format!("Argon2id v1.3 m={} t={} p={}", m, t, p), argon2::Argon2::new(argon2::Algorithm::Argon2id, argon2::Version::V0x13, argon2::Params::new(m, t, p, None).unwrap())));
    }
    insts.push(("Argon2i v1.3".into(), argon2::Argon2::new(argon2::Algorithm::Argon2i, argon2::Version::V0x13, argon2::Params::new(8, 1, 1, None).unwrap())));
    insts.push(("Argon2d v1.3".into(), argon2::Argon2::new(argon2::Algorithm::Argon2d, argon2::Version::V0x13, argon2::Params::new(8, 1, 1, None).unwrap())));
    insts.push(("Argon2id v1.0".into(), argon2::Argon2::new(argon2::Algorithm::Argon2id, argon2::Version::V0x10, argon2::Params::new(8, 1, 1, None).unwrap())));
    insts.push(("Argon2id v1.3 keyed".into(), argon2::Argon2::new_with_secret(b"pepper-pepper-A", argon2::Algorithm::Argon2id, argon2::Version::V0x13, argon2::Params::new(8, 1, 1, None).unwrap()).unwrap()));
    for (iname, a) in insts.iter() {
        let (m, t, p) = (a.params().m_cost(), a.params().t_cost(), a.params().p_cost());
        let mut rng = StdRng::seed_from_u64(900 + m as u64);
        for _ in 0..3 {
            acc.tried += 1;
            let mut i32 = GenericArray::<u8, U32>::default(); rng.fill_bytes(&mut i32);
            let mut i64 = GenericArray::<u8, U64>::default(); rng.fill_bytes(&mut i64);
            let mut e32 = [0u8; 32]; a.hash_password_into(&i32, &[0u8; 16], &mut e32).unwrap();
            let mut e64 = [0u8; 64]; a.hash_password_into(&i64, &[0u8; 16], &mut e64).unwrap();
            match (Ksf::hash(a, i32.clone()), Ksf::hash(a, i64.clone())) {
                (Ok(o32), Ok(o64)) => if o32.as_slice() != e32 || o64.as_slice() != e64 {
                    acc.hit("argon2", "Argon2 adapter output differs from THIS instance's Argon2(input, 16 zero bytes of salt)", json!({"instance": iname, "m_cost": m, "t_cost": t, "p_cost": p, "input32": hex::encode(&i32), "got32": hex::encode(&o32), "expected32": hex::encode(e32)})); },
                (x, y) => acc.hit("argon2", "Argon2 adapter failed where argon2 succeeds", json!({"e32": format!("{:?}", x.err()), "e64": format!("{:?}", y.err())})),
            }
        }
    }
}
pub struct A_R_R; impl CipherSuite for A_R_R { type OprfCs = opaque_ke::Ristretto255; type KeGroup = opaque_ke::Ristretto255; type KeyExchange = TripleDh; type Ksf = argon2::Argon2<'static>; }
/// honest run with explicit small Argon2 parameters on both sides; different parameters must fail
fn argon2_honest(acc: &mut Acc) {
    let k1 = argon2::Argon2::new(argon2::Algorithm::Argon2id, argon2::Version::V0x13, argon2::Params::new(8, 1, 1, None).unwrap());
    let k2 = argon2::Argon2::new(argon2::Algorithm::Argon2id, argon2::Version::V0x13, argon2::Params::new(16, 1, 1, None).unwrap());
    let k3 = argon2::Argon2::new_with_secret(b"pepper-pepper-A", argon2::Algorithm::Argon2id, argon2::Version::V0x13, argon2::Params::new(8, 1, 1, None).unwrap()).unwrap();
    let k4 = argon2::Argon2::new_with_secret(b"pepper-pepper-B", argon2::Algorithm::Argon2id, argon2::Version::V0x13, argon2::Params::new(8, 1, 1, None).unwrap()).unwrap();
    let k5 = argon2::Argon2::new(argon2::Algorithm::Argon2i, argon2::Version::V0x13, argon2::Params::new(8, 1, 1, None).unwrap());
    let k6 = argon2::Argon2::new(argon2::Algorithm::Argon2id, argon2::Version::V0x10, argon2::Params::new(8, 1, 1, None).unwrap());
    for (i, (kr, kl, must)) in [(&k1, &k1, true), (&k1, &k2, false), (&k3, &k3, true), (&k3, &k4, false), (&k3, &k1, false), (&k5, &k1, false), (&k6, &k1, false), (&k5, &k5, true)].iter().enumerate() {
        acc.tried += 1;
        let r = (|| -> Result<bool, ProtocolError> {
            let mut rng = StdRng::seed_from_u64(15900 + i as u64);
            let setup = ServerSetup::<A_R_R>::new(&mut rng);
            let c = ClientRegistration::<A_R_R>::start(&mut rng, b"pw")?;
            let s = ServerRegistration::<A_R_R>::start(&setup, c.message, b"id")?;
            let f = c.state.finish(&mut rng, b"pw", s.message, ClientRegistrationFinishParameters::new(Identifiers::default(), Some(*kr)))?;
            let file = ServerRegistration::<A_R_R>::finish(f.message);
            let cl = ClientLogin::<A_R_R>::start(&mut rng, b"pw")?;
            let sl = ServerLogin::<A_R_R>::start(&mut rng, &setup, Some(file), cl.message, b"id", ServerLoginStartParameters::default())?;
            Ok(cl.state.finish(b"pw", sl.message, ClientLoginFinishParameters::new(None, Identifiers::default(), Some(*kl))).is_ok())
        })();
        match r { Ok(ok) => if ok != *must { acc.hit("A_R_R", "Argon2 instance selection / binding (cost parameters, variant, version, secret key)", json!({"case": i, "same_instance": must, "login_succeeded": ok})); },
                  Err(e) => acc.hit("A_R_R", "run failed", json!({"error": format!("{:?}", e)})) }
    }
}
fn ksf_probe(acc: &mut Acc) { gen_c15!(K_R_R, acc); gen_c15!(K_P256_X, acc); }

/// C18: an external key that fails at the n-th interface call, for every n; equivalence with the direct-key server
fn external_key_faults(acc: &mut Acc) {
    use opaque_ke::keypair::{KeyPair, SecretKey};
    let mut rng = StdRng::seed_from_u64(1800);
    let inner = ServerSetup::<R_R>::new(&mut rng);
    let idx = { let mut st = extkey::STORE.lock().unwrap(); st.push(inner.keypair().private().serialize().to_vec()); st.len() - 1 };
    let kp = KeyPair::<opaque_ke::Ristretto255, extkey::Handle>::from_private_key(extkey::Handle(idx as u64)).unwrap();
    // same tape for both setups: same seed and fake key
    let direct = ServerSetup::<R_R>::new_with_key(&mut StdRng::seed_from_u64(1801), inner.keypair().clone());
    let ext = ServerSetup::<R_R, extkey::Handle>::new_with_key(&mut StdRng::seed_from_u64(1801), kp);
    let c = ClientRegistration::<R_R>::start(&mut rng, b"pw").unwrap();
    let s1 = ServerRegistration::<R_R>::start(&direct, c.message.clone(), b"id").unwrap();
    let s2 = ServerRegistration::<R_R>::start(&ext, c.message, b"id").unwrap();
    acc.tried += 1;
    if s1.message.serialize() != s2.message.serialize() { acc.hit("R_R+external key", "registration response differs from the direct-key server's", json!({})); }
    let f = c.state.finish(&mut rng, b"pw", s1.message, ClientRegistrationFinishParameters::default()).unwrap();
    let file = ServerRegistration::<R_R>::finish(f.message);
    let cl = ClientLogin::<R_R>::start(&mut rng, b"pw").unwrap();
    for pf in [Some(file.clone()), None] {
        let a = ServerLogin::<R_R>::start(&mut StdRng::seed_from_u64(1802), &direct, pf.clone(), cl.message.clone(), b"id", ServerLoginStartParameters::default()).unwrap();
        let b = ServerLogin::<R_R>::start(&mut StdRng::seed_from_u64(1802), &ext, pf.clone(), cl.message.clone(), b"id", ServerLoginStartParameters::default());
        acc.tried += 1;
        match b { Ok(b) => if a.message.serialize() != b.message.serialize() || a.state.serialize() != b.state.serialize() { acc.hit("R_R+external key", "login response / state differs from the direct-key server's", json!({"record": pf.is_some()})); },
                  Err(e) => acc.hit("R_R+external key", "external-key server failed where the direct-key server succeeded", json!({"error": format!("{:?}", e)})) }
        // fail at the n-th interface call
        for n in 1..=2u32 {
            acc.tried += 1;
            extkey::FAIL_AT.with(|f| f.set(n)); extkey::CALLS.with(|c| c.set(0));
            let r = std::panic::catch_unwind(std::panic::AssertUnwindSafe(|| ServerLogin::<R_R>::start(&mut StdRng::seed_from_u64(1803), &ext, pf.clone(), cl.message.clone(), b"id", ServerLoginStartParameters::default()).map(|_| ())));
            extkey::FAIL_AT.with(|f| f.set(0));
            match r {
                Err(_) => acc.hit("R_R+external key", "PANIC when the external key failed", json!({"failing_call": n, "record": pf.is_some()})),
                Ok(Ok(())) => acc.hit("R_R+external key", "a response was produced although the external key failed", json!({"failing_call": n})),
                Ok(Err(ProtocolError::LibraryError(opaque_ke::errors::InternalError::Custom(_)))) => {}
                Ok(Err(e)) => acc.hit("R_R+external key", "the external key's error was not returned to the caller", json!({"failing_call": n, "got": format!("{:?}", e)})),
            }
        }
        if extkey::CALLS.with(|c| c.get()) > 2 { acc.hit("R_R+external key", "more interface calls than one public_key and one diffie_hellman", json!({})); }
    }
}

fn external_key_probe(acc: &mut Acc) {
    use opaque_ke::keypair::{KeyPair, SecretKey};
    let mut rng = StdRng::seed_from_u64(18);
    let inner = ServerSetup::<R_R>::new(&mut rng);
    extkey::STORE.lock().unwrap().push(inner.keypair().private().serialize().to_vec());
    let kp = KeyPair::<opaque_ke::Ristretto255, extkey::Handle>::from_private_key(extkey::Handle(0)).unwrap();
    let setup = ServerSetup::<R_R, extkey::Handle>::new_with_key(&mut rng, kp);
    let bytes = setup.serialize();
    acc.tried += 1;
    match ServerSetup::<R_R, extkey::Handle>::deserialize(&bytes) {
        Ok(s2) => { if s2.serialize() != bytes { acc.hit("R_R+external key", "server setup with an external key changes over a native save / reload", json!({})); } }
        Err(e) => acc.hit("R_R+external key", "ServerSetup::serialize() output is refused by ServerSetup::deserialize() when the external key's serialized length differs from the group scalar length",
            json!({"serialized_len": bytes.len(), "error": format!("{:?}", e)})),
    }
}

fn main() {
    // panics inside catch_unwind are findings or expected refusals (finite tapes); they are reported through the JSON result, not on stderr
    std::panic::set_hook(Box::new(|_| {}));
    let args: Vec<String> = std::env::args().collect();
    let out = match args.get(1).map(|s| s.as_str()) {
        Some("witness") => run(args.get(2).map(|s| s.as_str()).unwrap_or("")),
        _ => json!({"error": "usage: vx-replay witness <generator>"}),
    };
    println!("{}", serde_json::to_string(&out).unwrap());
}
