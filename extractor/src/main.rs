//! vx-extract: mechanical extraction of opaque-ke function bodies for Verus.
//!
//! Reads /repo/src/*.rs (path given on the command line), applies the rewrite rules R1..R14 of
//! DESIGN.md section 2.2 and prints one Rust text with `//@item` marker comments, `__contract__!`
//! and `__loop__!` markers and `__R<..>` return-type wrappers.  Everything else (contract
//! splicing, prelude, verus! wrapping) is done by bin/assemble.py.  The tool REFUSES (exit 2) on
//! constructs outside its rule list; it never guesses.
use proc_macro2::Span;
use quote::ToTokens;
use std::collections::BTreeMap;
use std::fmt::Write as _;
use syn::punctuated::Punctuated;
use syn::visit_mut::{self, VisitMut};
use syn::*;

const FILES: &[(&str, &str)] = &[
    ("errors", "errors.rs"),
    ("serialization", "serialization/mod.rs"),
    ("ciphersuite", "ciphersuite.rs"),
    ("ksf", "ksf.rs"),
    ("group", "key_exchange/group/mod.rs"),
    ("group_ec", "key_exchange/group/elliptic_curve.rs"),
    ("keypair", "keypair.rs"),
    ("traits", "key_exchange/traits.rs"),
    ("tripledh", "key_exchange/tripledh.rs"),
    ("envelope", "envelope.rs"),
    ("messages", "messages.rs"),
    ("opaque", "opaque.rs"),
];
// files whose items are only anchor-checked (contracts live in the prelude / Kani)
const ANCHOR_ONLY: &[(&str, &str)] = &[("hash", "hash.rs")];

/// traits whose declaration lives in /repo but whose contract is in the prelude (R14)
const PRELUDE_TRAITS: &[&str] = &[
    "KeGroup", "SecretKey", "Ksf", "CipherSuite", "Hash", "ProxyHash",
];
/// trait impls that are dropped (not modelled): formatting, zeroize, serde, blanket plumbing
const DROPPED_IMPL_TRAITS: &[&str] = &[
    "Debug", "Error", "Zeroize", "Display", "ProxyHash", "Hash",
];
/// where-predicate / bound words that mark type-level bookkeeping (R2)
const BOOKKEEPING: &[&str] = &[
    "Add", "ArrayLength", "IsLess", "IsLessOrEqual", "NonZero", "Le", "ProxyHash", "BlockSizeUser",
    "OutputSizeUser", "Zeroize", "ZeroizeOnDrop", "CoreProxy",
    // elliptic_curve.rs: every bound except `G: GroupDigest` (the prelude's GroupDigest shim bundles them as associated-type bounds)
    "ModulusSize", "FromEncodedPoint", "ToEncodedPoint", "CofactorGroup", "FromOkm", "HashMarker", "FixedOutput",
];

struct Ctx {
    out: String,
    refusals: Vec<String>,
    rules: BTreeMap<&'static str, usize>,
    anchors: BTreeMap<String, Vec<String>>,
    dropped: Vec<String>,
    fns: Vec<serde_json::Value>,
    cur_file: String,
    cur_src: String,
    unsafe_seen: usize,
    ke_methods: Vec<String>,
    refused_fns: BTreeMap<String, Vec<String>>,
}
impl Ctx {
    fn rule(&mut self, r: &'static str) {
        *self.rules.entry(r).or_insert(0) += 1;
    }
    fn refuse(&mut self, what: &str, sp: Span) {
        let l = sp.start().line;
        self.refusals.push(format!("{}:{}: unsupported construct: {}", self.cur_src, l, what));
    }
}

fn ts<T: ToTokens>(t: &T) -> String {
    t.to_token_stream().to_string()
}

// ---------------------------------------------------------------- R1: cfg / attributes
#[derive(PartialEq)]
enum Cfg { True, False, Unknown }
fn eval_cfg_meta(m: &Meta) -> Cfg {
    match m {
        Meta::Path(p) => {
            if p.is_ident("test") { Cfg::False } else if p.is_ident("docsrs") { Cfg::False } else { Cfg::Unknown }
        }
        Meta::NameValue(nv) => {
            if nv.path.is_ident("feature") { Cfg::True } else { Cfg::Unknown }
        }
        Meta::List(l) => {
            let inner: Punctuated<Meta, Token![,]> = match l.parse_args_with(Punctuated::parse_terminated) {
                Ok(x) => x,
                Err(_) => return Cfg::Unknown,
            };
            if l.path.is_ident("not") {
                match inner.first().map(eval_cfg_meta) {
                    Some(Cfg::True) => Cfg::False,
                    Some(Cfg::False) => Cfg::True,
                    _ => Cfg::Unknown,
                }
            } else if l.path.is_ident("all") {
                let mut r = Cfg::True;
                for m in inner.iter() {
                    match eval_cfg_meta(m) { Cfg::False => return Cfg::False, Cfg::Unknown => r = Cfg::Unknown, _ => {} }
                }
                r
            } else if l.path.is_ident("any") {
                let mut r = Cfg::False;
                for m in inner.iter() {
                    match eval_cfg_meta(m) { Cfg::True => return Cfg::True, Cfg::Unknown => r = Cfg::Unknown, _ => {} }
                }
                r
            } else { Cfg::Unknown }
        }
    }
}
/// returns Some(keep?) after stripping all attributes; None + refusal if a cfg cannot be decided
fn process_attrs(cx: &mut Ctx, attrs: &mut Vec<Attribute>) -> bool {
    let mut keep = true;
    for a in attrs.iter() {
        if a.path().is_ident("cfg") {
            if let Meta::List(l) = &a.meta {
                if let Ok(m) = l.parse_args::<Meta>() {
                    match eval_cfg_meta(&m) {
                        Cfg::True => { cx.rule("R1.cfg"); }
                        Cfg::False => { cx.rule("R1.cfg"); keep = false; }
                        Cfg::Unknown => cx.refuse(&format!("undecidable cfg {}", ts(a)), a.pound_token.span),
                    }
                }
            }
        }
    }
    // premise of "derived serde impls are field-wise": every serde attribute (container bounds, and any field-level skip / with / default /
    // rename ...) is recorded as an anchor; a tree whose serde attributes differ from the verified baseline has lost that premise
    for a in attrs.iter() {
        let t = ts(a);
        if t.contains("serde") && (t.contains("serde (") || t.contains("serde(")) && !t.contains("derive (serde") || (t.contains("serde (") && t.matches("serde").count() > t.matches("serde ::").count()) {
            let src = cx.cur_src.clone();
            cx.anchors.entry("serde_attrs".to_string()).or_default().push(format!("{}: {}", src, t));
        }
    }
    if !attrs.is_empty() { cx.rule("R1.attr"); }
    attrs.clear();
    keep
}
fn has_derive(attrs: &[Attribute], what: &str) -> bool {
    attrs.iter().any(|a| {
        let s = ts(a);
        (s.contains("derive") || s.contains("derive_where")) && {
            // token-level word match
            s.split(|c: char| !c.is_alphanumeric() && c != '_').any(|w| w == what)
        }
    })
}

// ---------------------------------------------------------------- R2: where clauses and bounds
fn is_bookkeeping(s: &str) -> bool {
    s.split(|c: char| !c.is_alphanumeric() && c != '_').any(|w| BOOKKEEPING.contains(&w))
}
fn strip_where(cx: &mut Ctx, g: &mut Generics) {
    if let Some(w) = &mut g.where_clause {
        let mut kept: Punctuated<WherePredicate, Token![,]> = Punctuated::new();
        for p in w.predicates.iter() {
            if is_bookkeeping(&ts(p)) { cx.rule("R2"); } else { kept.push(p.clone()); }
        }
        w.predicates = kept;
        if w.predicates.is_empty() { g.where_clause = None; }
    }
}
fn strip_bounds(cx: &mut Ctx, bounds: &mut Punctuated<TypeParamBound, Token![+]>) {
    let mut kept: Punctuated<TypeParamBound, Token![+]> = Punctuated::new();
    for b in bounds.iter() {
        let s = ts(b);
        if s == "Zeroize" || s == "ZeroizeOnDrop" { cx.rule("R2"); } else { kept.push(b.clone()); }
    }
    *bounds = kept;
}

// ---------------------------------------------------------------- body / type rewriting
struct Rw<'c> {
    cx: &'c mut Ctx,
    in_closure: usize,
    loop_ord: usize,
    fn_key: String,
    self_subst: Option<String>, // R10: replace `Self` by this ident in paths
}

fn is_chunk_iter_type(t: &TypeImplTrait) -> Option<Option<Lifetime>> {
    // impl Iterator<Item = &'a [u8]>
    if t.bounds.len() != 1 { return None; }
    if let TypeParamBound::Trait(tb) = &t.bounds[0] {
        let seg = tb.path.segments.last()?;
        if seg.ident != "Iterator" { return None; }
        if let PathArguments::AngleBracketed(ab) = &seg.arguments {
            if ab.args.len() != 1 { return None; }
            if let GenericArgument::AssocType(at) = &ab.args[0] {
                if at.ident != "Item" { return None; }
                if let Type::Reference(r) = &at.ty {
                    if ts(&*r.elem) == "[u8]" { return Some(r.lifetime.clone()); }
                }
            }
        }
    }
    None
}

fn ident(s: &str) -> Ident { Ident::new(s, Span::call_site()) }

impl<'c> Rw<'c> {
    fn chunks_of(&mut self, elems: &Punctuated<Expr, Token![,]>, sp: Span) -> Option<Expr> {
        let n = elems.len();
        if n == 0 || n > 6 { self.cx.refuse("chunk array literal with 0 or more than 6 elements", sp); return None; }
        let f = ident(&format!("of{}", n));
        let es: Vec<&Expr> = elems.iter().collect();
        self.cx.rule("R5");
        Some(parse_quote!( Chunks::#f(#(#es),*) ))
    }

    /// R4: `E?`
    fn desugar_try(&mut self, inner: Expr, sp: Span) -> Expr {
        if self.in_closure > 0 { self.cx.refuse("`?` inside a closure", sp); }
        self.cx.rule("R4.try");
        if let Expr::MethodCall(mc) = &inner {
            if mc.method == "map_err" && mc.args.len() == 1 {
                let recv = &mc.receiver;
                match &mc.args[0] {
                    Expr::Closure(c) if c.inputs.len() == 1 => {
                        let body = &c.body;
                        let pat: Pat = match &c.inputs[0] {
                            Pat::Wild(_) => parse_quote!(_e),
                            p => p.clone(),
                        };
                        self.cx.rule("R4.map_err_closure");
                        return parse_quote!( match #recv { Ok(__v) => __v, Err(#pat) => return Err(From::from(#body)) } );
                    }
                    Expr::Path(p) => {
                        self.cx.rule("R4.map_err_path");
                        return parse_quote!( match #recv { Ok(__v) => __v, Err(__e) => return Err(From::from(#p(__e))) } );
                    }
                    other => self.cx.refuse(&format!("map_err argument {}", ts(other)), sp),
                }
            }
            // A.ok().and_then(|x| { B.ok() }).ok_or(E)?
            if mc.method == "ok_or" && mc.args.len() == 1 {
                if let Expr::MethodCall(m2) = &*mc.receiver {
                    if m2.method == "and_then" && m2.args.len() == 1 {
                        if let (Expr::MethodCall(m3), Expr::Closure(c)) = (&*m2.receiver, &m2.args[0]) {
                            if m3.method == "ok" && m3.args.is_empty() && c.inputs.len() == 1 {
                                let mut body: Expr = (*c.body).clone();
                                // unwrap `{ X.ok() }`
                                if let Expr::Block(b) = &body {
                                    if b.block.stmts.len() == 1 {
                                        if let Stmt::Expr(e, None) = &b.block.stmts[0] { body = e.clone(); }
                                    }
                                }
                                if let Expr::MethodCall(m4) = &body {
                                    if m4.method == "ok" && m4.args.is_empty() {
                                        let a = &m3.receiver; let b = &m4.receiver; let x = &c.inputs[0]; let e = &mc.args[0];
                                        self.cx.rule("R4.ok_and_then_ok_or");
                                        return parse_quote!( match #a {
                                            Ok(#x) => match #b { Ok(__v) => __v, Err(_e) => return Err(From::from(#e)) },
                                            Err(_e) => return Err(From::from(#e)),
                                        } );
                                    }
                                }
                            }
                        }
                    }
                }
                // any other `X.ok_or(E)?` : the generic `?` desugaring below, `X.ok_or(E)` itself by desugar_combinator
            }
        }
        parse_quote!( match #inner { Ok(__v) => __v, Err(__e) => return Err(From::from(__e)) } )
    }

    /// R4: non-`?` combinator chains with a fixed shape
    fn desugar_combinator(&mut self, mc: &ExprMethodCall) -> Option<Expr> {
        let sp = mc.method.span();
        let m = mc.method.to_string();
        // E.map(|x| B).ok().filter(|p| C).ok_or(ERR)   (Result -> Result; ERR a path: evaluated on either failing side)
        if m == "ok_or" && mc.args.len() == 1 && matches!(&mc.args[0], Expr::Path(_)) {
            if let Expr::MethodCall(fl) = &*mc.receiver {
                if fl.method == "filter" && fl.args.len() == 1 {
                    if let (Expr::MethodCall(okc), Expr::Closure(fc)) = (&*fl.receiver, &fl.args[0]) {
                        if okc.method == "ok" && okc.args.is_empty() && fc.inputs.len() == 1 {
                            if let Expr::MethodCall(mp) = &*okc.receiver {
                                if mp.method == "map" && mp.args.len() == 1 {
                                    if let Expr::Closure(mcl) = &mp.args[0] {
                                        if mcl.inputs.len() == 1 {
                                            let (e0, x, b, pp, c, err) = (&mp.receiver, &mcl.inputs[0], &mcl.body, &fc.inputs[0], &fc.body, &mc.args[0]);
                                            self.cx.rule("R4.map_ok_filter_ok_or");
                                            return Some(parse_quote!( match #e0 {
                                                Ok(#x) => { let __f = #b; let __keep = { let #pp = &__f; #c }; if __keep { Ok(__f) } else { Err(#err) } }
                                                Err(_) => Err(#err),
                                            } ));
                                        }
                                    }
                                }
                            }
                        }
                    }
                }
            }
        }
        // E.map_err(|_| A).and_then(|s| B)   (Result -> Result)
        if m == "and_then" && mc.args.len() == 1 {
            if let (Expr::MethodCall(me), Expr::Closure(ac)) = (&*mc.receiver, &mc.args[0]) {
                if me.method == "map_err" && me.args.len() == 1 && ac.inputs.len() == 1 {
                    if let Expr::Closure(ec) = &me.args[0] {
                        if ec.inputs.len() == 1 {
                            let (e0, a, sp_, b) = (&me.receiver, &ec.body, &ac.inputs[0], &ac.body);
                            let ep: Pat = match &ec.inputs[0] { Pat::Wild(_) => parse_quote!(_e), p => p.clone() };
                            self.cx.rule("R4.map_err_and_then");
                            return Some(parse_quote!( match #e0 { Ok(#sp_) => #b, Err(#ep) => Err(#a) } ));
                        }
                    }
                }
            }
        }
        // X.map(Ctor)  with Ctor a path  (Result -> Result)
        if m == "map" && mc.args.len() == 1 {
            if let Expr::Path(p) = &mc.args[0] {
                let r = &mc.receiver;
                self.cx.rule("R4.map_path");
                return Some(parse_quote!( match #r { Ok(__v) => Ok(#p(__v)), Err(__e) => Err(__e) } ));
            }
        }
        // X.map(|a| B).map_err(|_| C)
        if m == "map_err" && mc.args.len() == 1 {
            if let (Expr::MethodCall(inner), Expr::Closure(ec)) = (&*mc.receiver, &mc.args[0]) {
                if inner.method == "map" && inner.args.len() == 1 && ec.inputs.len() == 1 {
                    if let Expr::Closure(mc2) = &inner.args[0] {
                        if mc2.inputs.len() == 1 {
                            let r = &inner.receiver; let a = &mc2.inputs[0]; let b = &mc2.body; let c = &ec.body;
                            let epat: Pat = match &ec.inputs[0] { Pat::Wild(_) => parse_quote!(_e), p => p.clone() };
                            self.cx.rule("R4.map_map_err");
                            return Some(parse_quote!( match #r { Ok(#a) => Ok(#b), Err(#epat) => Err(#c) } ));
                        }
                    }
                }
            }
        }
        // X.map_or_else(|| D, |v| F)  (Option)   /   X.map_or_else(|e| D, |v| F)  (Result)
        if m == "map_or_else" && mc.args.len() == 2 {
            if let (Expr::Closure(d), Expr::Closure(f)) = (&mc.args[0], &mc.args[1]) {
                if f.inputs.len() == 1 {
                    let r = &mc.receiver; let (db, fb, fp) = (&d.body, &f.body, &f.inputs[0]);
                    if d.inputs.is_empty() {
                        self.cx.rule("R4.map_or_else");
                        return Some(parse_quote!( match #r { Some(#fp) => #fb, None => #db } ));
                    } else if d.inputs.len() == 1 {
                        let dp: Pat = match &d.inputs[0] { Pat::Wild(_) => parse_quote!(_e), p => p.clone() };
                        self.cx.rule("R4.map_or_else");
                        return Some(parse_quote!( match #r { Ok(#fp) => #fb, Err(#dp) => #db } ));
                    }
                }
            }
        }
        // X.unwrap_or_else(|| D)  (Option)   /   X.unwrap_or_else(|e| D)  (Result)
        if m == "unwrap_or_else" && mc.args.len() == 1 {
            if let Expr::Closure(d) = &mc.args[0] {
                let r = &mc.receiver; let db = &d.body;
                if d.inputs.is_empty() {
                    self.cx.rule("R4.unwrap_or_else");
                    return Some(parse_quote!( match #r { Some(__v) => __v, None => #db } ));
                } else if d.inputs.len() == 1 {
                    let dp: Pat = match &d.inputs[0] { Pat::Wild(_) => parse_quote!(_e), p => p.clone() };
                    self.cx.rule("R4.unwrap_or_else");
                    return Some(parse_quote!( match #r { Ok(__v) => __v, Err(#dp) => #db } ));
                }
            }
        }
        // X.ok_or(E) / X.ok_or_else(|| E)   (Option -> Result)
        if m == "ok_or" && mc.args.len() == 1 {
            let r = &mc.receiver; let e = &mc.args[0];
            if !matches!(&**r, Expr::MethodCall(x) if x.method == "and_then") {
                self.cx.rule("R4.ok_or");
                return Some(parse_quote!( match #r { Some(__v) => Ok(__v), None => Err(#e) } ));
            }
        }
        if m == "ok_or_else" && mc.args.len() == 1 {
            if let Expr::Closure(d) = &mc.args[0] {
                if d.inputs.is_empty() {
                    let r = &mc.receiver; let db = &d.body;
                    self.cx.rule("R4.ok_or");
                    return Some(parse_quote!( match #r { Some(__v) => Ok(__v), None => Err(#db) } ));
                }
            }
        }
        // X.map_err(|e| B)  not followed by `?`   (Result)
        if m == "map_err" && mc.args.len() == 1 {
            let r = &mc.receiver;
            match &mc.args[0] {
                Expr::Closure(c) if c.inputs.len() == 1 => {
                    let b = &c.body;
                    let ep: Pat = match &c.inputs[0] { Pat::Wild(_) => parse_quote!(_e), p => p.clone() };
                    self.cx.rule("R4.map_err_closure");
                    return Some(parse_quote!( match #r { Ok(__v) => Ok(__v), Err(#ep) => Err(#b) } ));
                }
                Expr::Path(p) => {
                    self.cx.rule("R4.map_err_path");
                    return Some(parse_quote!( match #r { Ok(__v) => Ok(__v), Err(__e) => Err(#p(__e)) } ));
                }
                _ => {}
            }
        }
        if ["map_err", "and_then", "ok_or", "filter", "then_some", "ok_or_else", "map_or", "or_else", "map_or_else", "unwrap_or_else"].contains(&m.as_str()) {
            self.cx.refuse(&format!("combinator `.{}(..)` outside the R4 shapes", m), sp);
        }
        None
    }

    /// R6: the XOR loops
    fn rewrite_for(&mut self, f: &ExprForLoop) -> Option<Expr> {
        let sp = f.for_token.span;
        // body must be `*a ^= b`
        let pat_ok = matches!(&*f.pat, Pat::Tuple(t) if t.elems.len() == 2);
        let body_s = ts(&f.body);
        let hdr = &*f.expr;
        if let Expr::MethodCall(z) = hdr {
            if z.method == "zip" && z.args.len() == 1 {
                if let Expr::MethodCall(im) = &*z.receiver {
                    if im.method == "iter_mut" {
                        if !pat_ok { self.cx.refuse("zip loop with non-pair pattern", sp); return None; }
                        let (a, b) = match &*f.pat { Pat::Tuple(t) => (ts(&t.elems[0]), ts(&t.elems[1])), _ => unreachable!() };
                        let want = format!("{{ * {} ^= {} }}", a, b);
                        let want2 = format!("{{ * {} ^= {} ; }}", a, b);
                        if body_s != want && body_s != want2 {
                            self.cx.refuse(&format!("zip loop body is not `*a ^= b`: {}", body_s), sp);
                            return None;
                        }
                        let target = &im.receiver;
                        let src = self.bytes_expr(&z.args[0], sp)?;
                        self.cx.rule("R6");
                        return Some(parse_quote!( xor_into(&mut #target, #src) ));
                    }
                }
            }
        }
        None
    }
    fn bytes_expr(&mut self, e: &Expr, sp: Span) -> Option<Expr> {
        if let Expr::MethodCall(m) = e {
            // X.iter().flatten()
            if m.method == "flatten" && m.args.is_empty() {
                let inner = &m.receiver;
                return Some(parse_quote!( Bytes::flatten(#inner) ));
            }
            // A.iter().chain(B.iter())
            if m.method == "chain" && m.args.len() == 1 {
                if let (Expr::MethodCall(l), Expr::MethodCall(r)) = (&*m.receiver, &m.args[0]) {
                    if l.method == "iter" && r.method == "iter" && l.args.is_empty() && r.args.is_empty() {
                        let (a, b) = (&l.receiver, &r.receiver);
                        return Some(parse_quote!( Bytes::of(&#a).chain(Bytes::of(&#b)) ));
                    }
                }
            }
            if m.method == "iter" && m.args.is_empty() {
                let a = &m.receiver;
                return Some(parse_quote!( Bytes::of(&#a) ));
            }
        }
        self.cx.refuse(&format!("byte iterator of unknown shape: {}", ts(e)), sp);
        None
    }
}

fn expr_attrs_mut(e: &mut Expr) -> Option<&mut Vec<Attribute>> {
    macro_rules! m { ($($v:ident),*) => { match e { $(Expr::$v(x) => Some(&mut x.attrs),)* _ => None } } }
    m!(Array, Assign, Async, Await, Binary, Block, Break, Call, Cast, Closure, Const, Continue, Field, ForLoop,
       Group, If, Index, Infer, Let, Lit, Loop, Macro, Match, MethodCall, Paren, Path, Range, Reference, Repeat,
       Return, Struct, Try, TryBlock, Tuple, Unary, Unsafe, While, Yield)
}

impl<'c> VisitMut for Rw<'c> {
    fn visit_block_mut(&mut self, b: &mut Block) {
        // R1 on statements
        let mut kept = Vec::new();
        for mut s in std::mem::take(&mut b.stmts) {
            // R6 at statement level (the replacement is a call statement and needs its `;`)
            if let Stmt::Expr(Expr::ForLoop(f), semi) = &mut s {
                if let Some(n) = self.rewrite_for(f) {
                    *semi = Some(Default::default());
                    if let Stmt::Expr(e, _) = &mut s { *e = n; }
                }
            }
            let keep = match &mut s {
                Stmt::Local(l) => process_attrs(self.cx, &mut l.attrs),
                Stmt::Expr(e, _) => match expr_attrs_mut(e) { Some(a) => process_attrs(self.cx, a), None => true },
                Stmt::Macro(m) => process_attrs(self.cx, &mut m.attrs),
                Stmt::Item(Item::Use(_)) => { self.cx.rule("R1.attr"); false }
                Stmt::Item(_) => { self.cx.refuse("item inside a function body", Span::call_site()); true }
            };
            if keep { kept.push(s); }
        }
        b.stmts = kept;
        visit_mut::visit_block_mut(self, b);
    }
    fn visit_expr_tuple_mut(&mut self, t: &mut ExprTuple) {
        let mut kept: Punctuated<Expr, Token![,]> = Punctuated::new();
        for mut e in std::mem::take(&mut t.elems).into_iter() {
            let keep = match expr_attrs_mut(&mut e) { Some(a) => process_attrs(self.cx, a), None => true };
            if keep { kept.push(e); }
        }
        t.elems = kept;
        visit_mut::visit_expr_tuple_mut(self, t);
    }
    fn visit_expr_struct_mut(&mut self, s: &mut ExprStruct) {
        let mut kept: Punctuated<FieldValue, Token![,]> = Punctuated::new();
        for mut f in std::mem::take(&mut s.fields).into_iter() {
            if process_attrs(self.cx, &mut f.attrs) { kept.push(f); }
        }
        s.fields = kept;
        visit_mut::visit_expr_struct_mut(self, s);
    }
    fn visit_type_mut(&mut self, t: &mut Type) {
        if let Type::ImplTrait(it) = t {
            match is_chunk_iter_type(it) {
                Some(lt) => {
                    self.cx.rule("R5");
                    *t = match lt { Some(l) => parse_quote!(Chunks<#l>), None => parse_quote!(Chunks<'_>) };
                    return;
                }
                None => self.cx.refuse(&format!("impl Trait type {}", ts(it)), it.impl_token.span),
            }
        }
        // R5: `&[&[u8]]` (KeGroup::hash_to_scalar's chunk lists) -> Chunks
        if let Type::Reference(r) = t {
            if let Type::Slice(sl) = &*r.elem {
                if let Type::Reference(r2) = &*sl.elem {
                    if ts(&*r2.elem) == "[u8]" {
                        self.cx.rule("R5");
                        *t = parse_quote!(Chunks<'_>);
                        return;
                    }
                }
            }
        }
        visit_mut::visit_type_mut(self, t);
    }
    fn visit_path_mut(&mut self, p: &mut Path) {
        // R10: Self -> KG in the extracted default method
        if let Some(s) = &self.self_subst {
            if p.segments.first().map(|x| x.ident == "Self").unwrap_or(false) {
                p.segments.first_mut().unwrap().ident = ident(s);
                self.cx.rule("R10");
            }
        }
        visit_mut::visit_path_mut(self, p);
    }
    fn visit_type_path_mut(&mut self, tp: &mut TypePath) {
        // R9 in types: <CS::KeyExchange as KeyExchange<..>>::X  ->  <TripleDh as KeyExchange<..>>::X
        if let Some(q) = &mut tp.qself {
            let s = ts(&*q.ty);
            if s == "CS :: KeyExchange" || s == "< CS as CipherSuite > :: KeyExchange" {
                *q.ty = parse_quote!(TripleDh);
                self.cx.rule("R9");
            }
        }
        visit_mut::visit_type_path_mut(self, tp);
    }
    fn visit_expr_path_mut(&mut self, ep: &mut ExprPath) {
        if let Some(q) = &ep.qself {
            let s = ts(&*q.ty);
            if (s == "CS :: KeyExchange" || s == "< CS as CipherSuite > :: KeyExchange") && ep.path.segments.len() == 2
                && self.cx.ke_methods.contains(&ep.path.segments[1].ident.to_string()) {
                // <CS::KeyExchange as KeyExchange<A, B>>::f::<X..>  ->  f::<A, B, X..>
                let mut args: Vec<GenericArgument> = Vec::new();
                if let PathArguments::AngleBracketed(ab) = &ep.path.segments[0].arguments { args.extend(ab.args.iter().cloned()); }
                if let PathArguments::AngleBracketed(ab) = &ep.path.segments[1].arguments { args.extend(ab.args.iter().cloned()); }
                let f = ep.path.segments[1].ident.clone();
                self.cx.rule("R9");
                *ep = parse_quote!( #f::<#(#args),*> );
                visit_mut::visit_expr_path_mut(self, ep);
                return;
            }
        }
        if let Some(q) = &mut ep.qself {
            let s = ts(&*q.ty);
            if s == "CS :: KeyExchange" || s == "< CS as CipherSuite > :: KeyExchange" {
                *q.ty = parse_quote!(TripleDh);
                self.cx.rule("R9");
            }
        }
        visit_mut::visit_expr_path_mut(self, ep);
    }
    fn visit_expr_mut(&mut self, e: &mut Expr) {
        // pre-order rewrites that replace the node
        match e {
            Expr::Try(t) => {
                let sp = t.question_token.span;
                let inner = (*t.expr).clone();
                *e = self.desugar_try(inner, sp);
                // fallthrough to visit children of the new node
            }
            Expr::MethodCall(mc) => {
                if let Some(n) = self.desugar_combinator(mc) { *e = n; }
            }
            Expr::ForLoop(f) => {
                if let Some(n) = self.rewrite_for(f) { *e = n; }
            }
            Expr::Macro(m) => {
                let name = ts(&m.mac.path);
                if name == "unreachable" {
                    self.cx.rule("R8.unreachable");
                    *e = parse_quote!(unreached());
                } else {
                    self.cx.refuse(&format!("macro {}!", name), m.mac.bang_token.span);
                }
            }
            Expr::Unsafe(u) => { self.cx.unsafe_seen += 1; self.cx.refuse("unsafe block", u.unsafe_token.span); }
            _ => {}
        }
        match e {
            Expr::Closure(c) => {
                self.cx.refuse("closure outside the R4 shapes", c.or1_token.span);
                self.in_closure += 1;
                visit_mut::visit_expr_mut(self, e);
                self.in_closure -= 1;
                return;
            }
            Expr::ForLoop(f) => {
                let ord = self.loop_ord; self.loop_ord += 1;
                let key = self.fn_key.clone();
                let marker: Stmt = parse_quote!( __loop__!(#key, #ord); );
                f.body.stmts.insert(0, marker);
            }
            Expr::While(w) => { self.cx.refuse("while loop (no loop contract registered)", w.while_token.span); }
            Expr::Loop(l) => { self.cx.refuse("loop (no loop contract registered)", l.loop_token.span); }
            // R9 in expressions: CS::KeyExchange::f  ->  <TripleDh as KeyExchange<OprfHash<CS>, CS::KeGroup>>::f
            Expr::Path(p) if p.qself.is_none() && p.path.segments.len() >= 3
                && p.path.segments[0].ident == "CS" && p.path.segments[1].ident == "KeyExchange" => {
                let rest: Vec<PathSegment> = p.path.segments.iter().skip(2).cloned().collect();
                self.cx.rule("R9");
                if rest.len() == 1 && self.cx.ke_methods.contains(&rest[0].ident.to_string()) {
                    let mut args: Vec<GenericArgument> = vec![parse_quote!(OprfHash<CS>), parse_quote!(CS::KeGroup)];
                    if let PathArguments::AngleBracketed(ab) = &rest[0].arguments { args.extend(ab.args.iter().cloned()); }
                    let f = rest[0].ident.clone();
                    *e = parse_quote!( #f::<#(#args),*> );
                } else {
                    *e = parse_quote!( <TripleDh as KeyExchange<OprfHash<CS>, CS::KeGroup>>::#(#rest)::* );
                }
            }
            // [a, b].into_iter()  ->  Chunks::ofN(a, b)
            Expr::MethodCall(mc) if mc.method == "into_iter" && mc.args.is_empty() => {
                if let Expr::Array(arr) = &*mc.receiver {
                    let sp = mc.method.span();
                    if let Some(n) = self.chunks_of(&arr.elems.clone(), sp) { *e = n; }
                }
            }
            // R5 (Input::iter): `.chain(match X { P => [a], .. })` and `.chain(if let P = X { Some(a) } else { None })` on a chunk
            // iterator: every arm is an array literal / an Option, i.e. an IntoIterator of chunks -> Chunks::ofN / of1 / of0
            Expr::MethodCall(mc) if mc.method == "chain" && mc.args.len() == 1
                && (matches!(&mc.args[0], Expr::Match(m) if !m.arms.is_empty() && m.arms.iter().all(|a| matches!(&*a.body, Expr::Array(_))))
                    || matches!(&mc.args[0], Expr::If(i) if matches!(&*i.cond, Expr::Let(_)))) => {
                let sp = mc.method.span();
                let mut ok = true;
                match &mut mc.args[0] {
                    Expr::Match(m) => {
                        for a in m.arms.iter_mut() {
                            if let Expr::Array(arr) = &*a.body {
                                match self.chunks_of(&arr.elems.clone(), sp) { Some(n) => { a.body = Box::new(n); } None => { ok = false; } }
                            }
                        }
                    }
                    Expr::If(i) => {
                        // then: { Some(x) }   else: { None }
                        let then_ok = i.then_branch.stmts.len() == 1;
                        let mut x: Option<Expr> = None;
                        if then_ok {
                            if let Stmt::Expr(Expr::Call(c), None) = &i.then_branch.stmts[0] {
                                if ts(&*c.func) == "Some" && c.args.len() == 1 { x = Some(c.args[0].clone()); }
                            }
                        }
                        let else_none = match &i.else_branch {
                            Some((_, eb)) => matches!(&**eb, Expr::Block(b) if b.block.stmts.len() == 1 && matches!(&b.block.stmts[0], Stmt::Expr(Expr::Path(p), None) if p.path.is_ident("None"))),
                            None => false,
                        };
                        match (x, else_none) {
                            (Some(x), true) => {
                                self.cx.rule("R5");
                                i.then_branch = parse_quote!({ Chunks::of1(#x) });
                                i.else_branch.as_mut().unwrap().1 = Box::new(parse_quote!({ Chunks::of0() }));
                            }
                            _ => { ok = false; }
                        }
                    }
                    _ => {}
                }
                if !ok { self.cx.refuse("chain(..) argument outside the R5 shapes", sp); }
            }
            // X.expand_multi_info(&[a, b], out) -> X.expand_multi_info(Chunks::ofN(a, b), out)
            Expr::MethodCall(mc) if mc.method == "expand_multi_info" && mc.args.len() == 2 => {
                let sp = mc.method.span();
                if let Expr::Reference(r) = &mc.args[0] {
                    if let Expr::Array(arr) = &*r.expr {
                        if let Some(n) = self.chunks_of(&arr.elems.clone(), sp) { mc.args[0] = n; }
                    } else {
                        // a local array of chunks: keep, the prelude offers Chunks::from_array
                        let inner = &r.expr;
                        self.cx.rule("R5");
                        mc.args[0] = parse_quote!( Chunks::from_array(&#inner) );
                    }
                }
            }
            // F(&[a, b, ..], &[c, d]) for hash_to_scalar -> Chunks::ofN
            Expr::Call(c) if ts(&*c.func).contains("hash_to_scalar") => {
                let sp = Span::call_site();
                for i in 0..c.args.len() {
                    if let Expr::Reference(r) = &c.args[i] {
                        if let Expr::Array(arr) = &*r.expr {
                            if let Some(n) = self.chunks_of(&arr.elems.clone(), sp) { c.args[i] = n; }
                        }
                    }
                }
            }
            // R8: CS::Ksf::default()  ->  ksf_default::<CS::Ksf>()   (Default::default assumed deterministic)
            Expr::Call(c) if c.args.is_empty() && ts(&*c.func) == "CS :: Ksf :: default" => {
                self.cx.rule("R8.ksf_default");
                *e = parse_quote!( ksf_default::<CS::Ksf>() );
            }
            // R8: `X.as_slice() == Y` / `!=`  ->  slice_eq(X.as_slice(), Y)   (byte-slice equality, std semantics as a prelude contract)
            Expr::Binary(b) if matches!(b.op, BinOp::Eq(_) | BinOp::Ne(_))
                && (matches!(&*b.left, Expr::MethodCall(m) if m.method == "as_slice") || matches!(&*b.right, Expr::MethodCall(m) if m.method == "as_slice")) => {
                let (l, r) = (&b.left, &b.right);
                let ne = matches!(b.op, BinOp::Ne(_));
                self.cx.rule("R8.slice_eq");
                *e = if ne { parse_quote!( !slice_eq(#l, #r) ) } else { parse_quote!( slice_eq(#l, #r) ) };
            }
            // R8: to_be_bytes
            Expr::MethodCall(mc) if mc.method == "to_be_bytes" && mc.args.is_empty() => {
                mc.method = ident("to_be_bytes_v");
                self.cx.rule("R8.to_be_bytes");
            }
            _ => {}
        }
        visit_mut::visit_expr_mut(self, e);
    }
}

// ---------------------------------------------------------------- items
fn emit_marker(cx: &mut Ctx, kind: &str, key: &str, line: usize, extra: &str) {
    let _ = writeln!(cx.out, "//@item kind={} key={} src={}:{}{}", kind, key, cx.cur_src, line, extra);
}

fn self_ty_name(t: &Type) -> String {
    match t {
        Type::Path(p) => p.path.segments.last().map(|s| s.ident.to_string()).unwrap_or_else(|| ts(t)),
        _ => ts(t),
    }
}

fn process_sig_and_body(cx: &mut Ctx, key: &str, sig: &mut Signature, block: &mut Block, self_subst: Option<String>) {
    let refusals_before = cx.refusals.len();
    strip_where(cx, &mut sig.generics);
    // R7: destructuring params
    let mut lets: Vec<Stmt> = Vec::new();
    let mut idx = 0;
    for inp in sig.inputs.iter_mut() {
        if let FnArg::Typed(pt) = inp {
            match &*pt.pat {
                Pat::Ident(_) => {}
                other => {
                    let name = ident(&format!("__p{}", idx));
                    let pat = other.clone();
                    lets.push(parse_quote!( let #pat = #name; ));
                    *pt.pat = parse_quote!(#name);
                    cx.rule("R7");
                }
            }
        }
        idx += 1;
    }
    let mut rw = Rw { cx, in_closure: 0, loop_ord: 0, fn_key: key.to_string(), self_subst };
    rw.visit_signature_mut(sig);
    let refusals_sig = rw.cx.refusals.len();
    rw.visit_block_mut(block);
    // a body outside the rule list is not verified: the function is emitted without its body (external, contract ASSUMED),
    // reported as `refused`, and every property that needs one of its clauses becomes undecided — never an alarm
    if cx.refusals.len() > refusals_sig && refusals_sig == refusals_before {
        let reasons: Vec<String> = cx.refusals.drain(refusals_sig..).collect();
        cx.refused_fns.insert(key.to_string(), reasons);
        *block = parse_quote!({ unimplemented!() });
        lets.clear();
    }
    for (i, l) in lets.into_iter().enumerate() { block.stmts.insert(i, l); }
    // R11: return-type wrapper and contract marker
    if let ReturnType::Type(_, t) = &mut sig.output {
        let inner = (**t).clone();
        **t = parse_quote!( __R<#inner> );
    }
    let marker: Stmt = parse_quote!( __contract__!(#key); );
    block.stmts.insert(0, marker);
    cx.rule("R11");
}

fn bytes_of_lit(e: &Expr) -> Option<(Vec<u8>, &'static str)> {
    // b"..."  |  *b"..."
    match e {
        Expr::Lit(ExprLit { lit: Lit::ByteStr(b), .. }) => Some((b.value(), "ref")),
        Expr::Unary(u) if matches!(u.op, UnOp::Deref(_)) => {
            if let Expr::Lit(ExprLit { lit: Lit::ByteStr(b), .. }) = &*u.expr { Some((b.value(), "val")) } else { None }
        }
        _ => None,
    }
}
fn hexlist(v: &[u8]) -> String {
    v.iter().map(|b| format!("0x{:02x}u8", b)).collect::<Vec<_>>().join(", ")
}

fn clone_impl(cx: &mut Ctx, name: &Ident, generics: &Generics, copy: bool, plain_derive: bool) {
    let mut g = generics.clone();
    for p in g.params.iter_mut() {
        if let GenericParam::Type(tp) = p {
            tp.default = None; tp.eq_token = None;
            // `#[derive(Clone)]` (unlike derive_where) bounds every type parameter
            if plain_derive { tp.bounds.push(parse_quote!(Clone)); if copy { tp.bounds.push(parse_quote!(Copy)); } }
        }
    }
    let (ig, tg, _) = g.split_for_impl();
    cx.rule("R12");
    let _ = writeln!(cx.out, "//@item kind=clone key={}::{}::clone src={}:0", cx.cur_file, name, cx.cur_src);
    let _ = writeln!(cx.out, "impl {} Clone for {} {} {{ #[verifier::external_body] fn clone(&self) -> __R<Self> {{ __clone_contract__!(); unimplemented!() }} }}", ts(&ig), name, ts(&tg));
    if copy {
        let _ = writeln!(cx.out, "impl {} Copy for {} {} {{}}", ts(&ig), name, ts(&tg));
    }
}

fn process_items(cx: &mut Ctx, items: Vec<Item>, impl_counter: &mut usize) {
    for mut it in items {
        match &mut it {
            Item::Use(_) => {}
            Item::Mod(m) => {
                let keep = process_attrs(cx, &mut m.attrs);
                if !keep { continue; }
                if let Some((_, inner)) = m.content.take() {
                    cx.rule("R13.flatten_mod");
                    process_items(cx, inner, impl_counter);
                } // `mod x;` declarations: nothing to do
            }
            Item::Const(c) => {
                if !process_attrs(cx, &mut c.attrs) { continue; }
                let line = c.ident.span().start().line;
                let key = format!("{}::{}", cx.cur_file, c.ident);
                if let Some((bytes, how)) = bytes_of_lit(&c.expr) {
                    cx.rule("R3.bytes");
                    emit_marker(cx, "const", &key, line, "");
                    let n = bytes.len();
                    if how == "ref" {
                        let _ = writeln!(cx.out, "pub const {}: &'static [u8; {}] = &[{}];", c.ident, n, hexlist(&bytes));
                    } else {
                        let _ = writeln!(cx.out, "pub const {}: [u8; {}] = [{}];", c.ident, n, hexlist(&bytes));
                    }
                } else {
                    // any other constant is emitted verbatim (Verus accepts simple constant expressions)
                    cx.rule("R13");
                    emit_marker(cx, "const_plain", &key, line, "");
                    c.vis = parse_quote!(pub);
                    let _ = writeln!(cx.out, "{}", ts(c));
                }
            }
            Item::Static(s) => {
                if !process_attrs(cx, &mut s.attrs) { continue; }
                let line = s.ident.span().start().line;
                let key = format!("{}::{}", cx.cur_file, s.ident);
                match bytes_of_lit(&s.expr) {
                    Some((bytes, "ref")) if ts(&*s.ty) == "& [u8]" => {
                        cx.rule("R3.static");
                        emit_marker(cx, "static_slice", &key, line, &format!(" name={} bytes={}", s.ident, bytes.iter().map(|b| format!("{:02x}", b)).collect::<String>()));
                    }
                    _ => cx.refuse(&format!("static {} of unsupported shape", s.ident), s.ident.span()),
                }
            }
            Item::Type(t) => {
                if !process_attrs(cx, &mut t.attrs) { continue; }
                strip_where(cx, &mut t.generics);
                t.vis = parse_quote!(pub);
                let mut rw = Rw { cx, in_closure: 0, loop_ord: 0, fn_key: String::new(), self_subst: None };
                rw.visit_item_type_mut(t);
                let line = t.ident.span().start().line;
                let key = format!("{}::{}", cx.cur_file, t.ident);
                emit_marker(cx, "type", &key, line, "");
                cx.rule("R13");
                let _ = writeln!(cx.out, "{}", ts(t));
            }
            Item::Struct(s) => {
                let clone = has_derive(&s.attrs, "Clone");
                let copy = has_derive(&s.attrs, "Copy");
                let dflt = has_derive(&s.attrs, "Default");
                let plain = s.attrs.iter().any(|a| a.path().is_ident("derive") && ts(a).contains("Clone"));
                if !process_attrs(cx, &mut s.attrs) { continue; }
                strip_where(cx, &mut s.generics);
                s.vis = parse_quote!(pub);
                let mut kept_named: Punctuated<Field, Token![,]> = Punctuated::new();
                match &mut s.fields {
                    Fields::Named(n) => {
                        for mut f in std::mem::take(&mut n.named).into_iter() {
                            if process_attrs(cx, &mut f.attrs) { f.vis = parse_quote!(pub); kept_named.push(f); }
                        }
                        n.named = kept_named;
                    }
                    Fields::Unnamed(u) => {
                        let mut kept: Punctuated<Field, Token![,]> = Punctuated::new();
                        for mut f in std::mem::take(&mut u.unnamed).into_iter() {
                            if process_attrs(cx, &mut f.attrs) { f.vis = parse_quote!(pub); kept.push(f); }
                        }
                        u.unnamed = kept;
                    }
                    Fields::Unit => {}
                }
                cx.rule("R3.pub");
                let mut rw = Rw { cx, in_closure: 0, loop_ord: 0, fn_key: String::new(), self_subst: None };
                rw.visit_item_struct_mut(s);
                let line = s.ident.span().start().line;
                let key = format!("{}::{}", cx.cur_file, s.ident);
                emit_marker(cx, "struct", &key, line, &format!(" default={}", dflt));
                cx.rule("R13");
                let _ = writeln!(cx.out, "{}", ts(s));
                if clone { let (n, g) = (s.ident.clone(), s.generics.clone()); clone_impl(cx, &n, &g, copy, plain); }
            }
            Item::Enum(en) => {
                let clone = has_derive(&en.attrs, "Clone");
                let copy = has_derive(&en.attrs, "Copy");
                let plain = en.attrs.iter().any(|a| a.path().is_ident("derive") && ts(a).contains("Clone"));
                if !process_attrs(cx, &mut en.attrs) { continue; }
                strip_where(cx, &mut en.generics);
                en.vis = parse_quote!(pub);
                for v in en.variants.iter_mut() {
                    // explicit discriminants are dropped (Verus' macro rejects them; no `as` cast on these enums is extracted)
                    if v.discriminant.take().is_some() { cx.rule("R3.discriminant"); }
                    process_attrs(cx, &mut v.attrs);
                    for f in v.fields.iter_mut() { process_attrs(cx, &mut f.attrs); }
                }
                let line = en.ident.span().start().line;
                let key = format!("{}::{}", cx.cur_file, en.ident);
                emit_marker(cx, "enum", &key, line, "");
                cx.rule("R13");
                let _ = writeln!(cx.out, "{}", ts(en));
                if clone { let (n, g) = (en.ident.clone(), en.generics.clone()); clone_impl(cx, &n, &g, copy, plain); }
            }
            Item::Trait(t) => {
                if !process_attrs(cx, &mut t.attrs) { continue; }
                let name = t.ident.to_string();
                if PRELUDE_TRAITS.contains(&name.as_str()) {
                    // R14 anchors
                    let mut sigs = Vec::new();
                    for ti in t.items.iter_mut() {
                        match ti {
                            TraitItem::Fn(f) => {
                                let mut sig = f.sig.clone();
                                strip_where(cx, &mut sig.generics);
                                sigs.push(ts(&sig));
                                if let Some(body) = &mut f.default {
                                    // R10: default method -> free generic function
                                    if name == "KeGroup" {
                                        let key = format!("{}::{}::{}", cx.cur_file, name, f.sig.ident);
                                        let mut sig2 = f.sig.clone();
                                        let line = sig2.ident.span().start().line;
                                        sig2.ident = ident(&format!("{}_default", f.sig.ident));
                                        sig2.generics.params.insert(0, parse_quote!(KG: KeGroup));
                                        let mut blk = body.clone();
                                        process_sig_and_body(cx, &key, &mut sig2, &mut blk, Some("KG".into()));
                                        emit_marker(cx, "fn", &key, line, " free=1");
                                        let _ = writeln!(cx.out, "pub {} {}", ts(&sig2), ts(&blk));
                                        cx.fns.push(serde_json::json!({"key": key, "file": cx.cur_src, "line": line}));
                                    } else {
                                        cx.refuse(&format!("default method in prelude trait {}", name), f.sig.ident.span());
                                    }
                                }
                            }
                            TraitItem::Type(ty) => { let mut b = ty.bounds.clone(); strip_bounds(cx, &mut b); sigs.push(format!("type {} : {}", ty.ident, ts(&b))); }
                            TraitItem::Const(c) => sigs.push(format!("const {} : {}", c.ident, ts(&c.ty))),
                            _ => {}
                        }
                    }
                    let mut sup = t.supertraits.clone();
                    strip_bounds(cx, &mut sup);
                    sigs.insert(0, format!("trait {} {} : {}", name, ts(&t.generics.params), ts(&sup)));
                    cx.anchors.insert(name, sigs);
                    cx.rule("R14");
                } else {
                    // plain trait declarations (KeyExchange, Serialize, Deserialize): extracted verbatim
                    strip_where(cx, &mut t.generics);
                    t.vis = parse_quote!(pub);
                    if name == "KeyExchange" {
                        // R9: the sealed trait keeps its associated types; its methods become free functions
                        let mut kept = Vec::new();
                        for ti in std::mem::take(&mut t.items) {
                            if let TraitItem::Fn(f) = &ti { cx.ke_methods.push(f.sig.ident.to_string()); cx.rule("R9"); } else { kept.push(ti); }
                        }
                        t.items = kept;
                    }
                    for ti in t.items.iter_mut() {
                        match ti {
                            TraitItem::Fn(f) => {
                                process_attrs(cx, &mut f.attrs);
                                strip_where(cx, &mut f.sig.generics);
                                if f.default.is_some() { cx.refuse("default method in extracted trait", f.sig.ident.span()); }
                                let mut rw = Rw { cx, in_closure: 0, loop_ord: 0, fn_key: String::new(), self_subst: None };
                                rw.visit_signature_mut(&mut f.sig);
                            }
                            TraitItem::Type(ty) => { process_attrs(cx, &mut ty.attrs); strip_bounds(cx, &mut ty.bounds); }
                            _ => {}
                        }
                    }
                    let line = t.ident.span().start().line;
                    let key = format!("{}::{}", cx.cur_file, t.ident);
                    emit_marker(cx, "trait", &key, line, "");
                    cx.rule("R13");
                    let _ = writeln!(cx.out, "{}", ts(t));
                }
            }
            Item::Impl(im) => {
                if !process_attrs(cx, &mut im.attrs) { continue; }
                *impl_counter += 1;
                let self_name = self_ty_name(&im.self_ty);
                let trait_name = im.trait_.as_ref().map(|(_, p, _)| ts(p.segments.last().unwrap()));
                if let Some(tn) = &trait_name {
                    let tn0 = tn.replace(' ', "");
                    let base = tn0.split('<').next().unwrap().to_string();
                    let is_serde = ts(&im.trait_.as_ref().unwrap().1).starts_with("serde ::");
                    let dropped = DROPPED_IMPL_TRAITS.iter().any(|d| d.replace(' ', "") == tn0 || *d == base)
                        || (is_serde && cx.cur_file != "keypair");
                    if dropped {
                        cx.dropped.push(format!("{}: impl {} for {}", cx.cur_src, tn0, ts(&im.self_ty).replace(' ', "")));
                        // the two generic chunk loops are not extracted (a loop over an opaque iterator); their prelude contracts were written
                        // for exactly this body text, which is therefore anchored: any other body makes the contract "refused"
                        if base == "UpdateExt" || base == "MacExt" {
                            for ii in im.items.iter() {
                                if let ImplItem::Fn(f) = ii {
                                    cx.anchors.insert(format!("body:{}::{}::{}", cx.cur_file, base, f.sig.ident), vec![ts(f)]);
                                }
                            }
                        }
                        continue;
                    }
                    if base == "From" && ts(&im.trait_.as_ref().unwrap().1).contains("Infallible") {
                        cx.dropped.push(format!("{}: impl {} for {} (body is unreachable!())", cx.cur_src, tn0, ts(&im.self_ty).replace(' ', "")));
                        continue;
                    }
                }
                strip_where(cx, &mut im.generics);
                let line = im.impl_token.span.start().line;
                let is_from = trait_name.as_ref().map(|t| t.starts_with("From")).unwrap_or(false);
                let hdr_trait = im.trait_.as_ref().map(|(_, p, _)| { let mut p = p.clone(); let mut rw = Rw { cx, in_closure: 0, loop_ord: 0, fn_key: String::new(), self_subst: None }; rw.visit_path_mut(&mut p); format!("{} for ", ts(&p)) }).unwrap_or_default();
                let mut self_ty = (*im.self_ty).clone();
                { let mut rw = Rw { cx, in_closure: 0, loop_ord: 0, fn_key: String::new(), self_subst: None }; rw.visit_type_mut(&mut self_ty); }
                let is_serde_impl = im.trait_.as_ref().map(|t| ts(&t.1).starts_with("serde ::")).unwrap_or(false);
                let is_ke = trait_name.as_ref().map(|t| t.starts_with("KeyExchange")).unwrap_or(false) || is_serde_impl;
                let impl_generics = im.generics.clone();
                let (ig, _, wc) = impl_generics.split_for_impl();
                if !is_serde_impl {
                    emit_marker(cx, "impl", &format!("{}::impl#{}", cx.cur_file, impl_counter), line, &format!(" trait={} from={}", trait_name.clone().unwrap_or_default().replace(' ', ""), is_from));
                    let _ = writeln!(cx.out, "impl {} {}{} {} {{", ts(&ig), hdr_trait, ts(&self_ty), ts(&wc));
                }
                let mut assoc: BTreeMap<String, Type> = BTreeMap::new();
                let mut free_fns: Vec<String> = Vec::new();
                if is_ke { for ii in im.items.iter() { if let ImplItem::Type(t) = ii { assoc.insert(t.ident.to_string(), t.ty.clone()); } } }
                for ii in im.items.iter_mut() {
                    if is_ke {
                        if let ImplItem::Fn(f) = ii {
                            if !process_attrs(cx, &mut f.attrs) { continue; }
                            let mut key = format!("{}::{}::{}", cx.cur_file, self_name, f.sig.ident);
                            if is_serde_impl {
                                // the serde impls of the key wrappers: emitted as free functions `serde_<method>_<Type>` (Verus cannot attach
                                // `ensures` to a second trait method of the same name on one type); nothing in the crate calls them
                                key = format!("{}[serde]", key);
                                f.sig.ident = ident(&format!("serde_{}_{}", f.sig.ident, self_name));
                            }
                            let l = f.sig.ident.span().start().line;
                            // prepend the impl's generic parameters, after the fn's own lifetimes
                            let mut params: Punctuated<GenericParam, Token![,]> = Punctuated::new();
                            for p in f.sig.generics.params.iter() { if matches!(p, GenericParam::Lifetime(_)) { params.push(p.clone()); } }
                            for p in impl_generics.params.iter() { params.push(p.clone()); }
                            for p in f.sig.generics.params.iter() { if !matches!(p, GenericParam::Lifetime(_)) { params.push(p.clone()); } }
                            f.sig.generics.params = params;
                            if f.sig.generics.lt_token.is_none() { f.sig.generics.lt_token = Some(Default::default()); f.sig.generics.gt_token = Some(Default::default()); }
                            struct SelfSubst<'m> { assoc: &'m BTreeMap<String, Type>, self_ty: Type }
                            impl<'m> VisitMut for SelfSubst<'m> {
                                fn visit_type_mut(&mut self, t: &mut Type) {
                                    if let Type::Path(tp) = t {
                                        if tp.qself.is_none() && tp.path.segments.len() == 2 && tp.path.segments[0].ident == "Self" {
                                            if let Some(r) = self.assoc.get(&tp.path.segments[1].ident.to_string()) { *t = r.clone(); return; }
                                        }
                                        if tp.qself.is_none() && tp.path.is_ident("Self") { *t = self.self_ty.clone(); return; }
                                    }
                                    visit_mut::visit_type_mut(self, t);
                                }
                            }
                            let mut ss = SelfSubst { assoc: &assoc, self_ty: self_ty.clone() };
                            // `Self(..)` / `Self { .. }` constructors in expressions
                            if is_serde_impl {
                                struct SelfExpr { name: Ident }
                                impl VisitMut for SelfExpr {
                                    fn visit_path_mut(&mut self, p: &mut Path) {
                                        if p.segments.len() >= 1 && p.segments[0].ident == "Self" { p.segments[0].ident = self.name.clone(); }
                                        visit_mut::visit_path_mut(self, p);
                                    }
                                }
                                let mut se = SelfExpr { name: ident(&self_name) };
                                se.visit_block_mut(&mut f.block);
                                // a free function has no receiver: `&self` becomes the parameter `this: &Type`
                                if let Some(FnArg::Receiver(rcv)) = f.sig.inputs.first().cloned() {
                                    let ty = &self_ty;
                                    let newarg: FnArg = if rcv.reference.is_some() {
                                        if rcv.mutability.is_some() { parse_quote!(this: &mut #ty) } else { parse_quote!(this: &#ty) }
                                    } else { parse_quote!(this: #ty) };
                                    *f.sig.inputs.first_mut().unwrap() = newarg;
                                    struct SelfToThis;
                                    impl VisitMut for SelfToThis {
                                        fn visit_expr_path_mut(&mut self, p: &mut ExprPath) {
                                            if p.qself.is_none() && p.path.is_ident("self") { *p = parse_quote!(this); }
                                        }
                                    }
                                    SelfToThis.visit_block_mut(&mut f.block);
                                }
                                // lifetimes of the impl (e.g. 'de) come first
                            }
                            ss.visit_signature_mut(&mut f.sig);
                            ss.visit_block_mut(&mut f.block);
                            process_sig_and_body(cx, &key, &mut f.sig, &mut f.block, None);
                            cx.rule("R9");
                            free_fns.push(format!("//@item kind=fn key={} src={}:{} free=1\npub {} {}", key, cx.cur_src, l, ts(&f.sig), ts(&f.block)));
                            cx.fns.push(serde_json::json!({"key": key, "file": cx.cur_src, "line": l}));
                            continue;
                        }
                    }
                    match ii {
                        ImplItem::Fn(f) => {
                            if !process_attrs(cx, &mut f.attrs) { continue; }
                            let mut key = format!("{}::{}::{}", cx.cur_file, self_name, f.sig.ident);
                            if is_from { key = format!("{}[{}]", key, trait_name.clone().unwrap_or_default().replace(' ', "")); }
                            if im.trait_.as_ref().map(|t| ts(&t.1).starts_with("serde ::")).unwrap_or(false) { key = format!("{}[serde]", key); }
                            let l = f.sig.ident.span().start().line;
                            if f.sig.unsafety.is_some() { cx.unsafe_seen += 1; cx.refuse("unsafe fn", f.sig.ident.span()); }
                            process_sig_and_body(cx, &key, &mut f.sig, &mut f.block, None);
                            emit_marker(cx, "fn", &key, l, "");
                            let vis = if im.trait_.is_some() { "" } else { "pub " };
                            let _ = writeln!(cx.out, "{}{} {}", vis, ts(&f.sig), ts(&f.block));
                            cx.fns.push(serde_json::json!({"key": key, "file": cx.cur_src, "line": l}));
                        }
                        ImplItem::Type(t) => {
                            if !process_attrs(cx, &mut t.attrs) { continue; }
                            let mut rw = Rw { cx, in_closure: 0, loop_ord: 0, fn_key: String::new(), self_subst: None };
                            rw.visit_impl_item_type_mut(t);
                            let _ = writeln!(cx.out, "{}", ts(t));
                        }
                        other => cx.refuse(&format!("impl item {}", ts(other)), Span::call_site()),
                    }
                }
                if !is_serde_impl { let _ = writeln!(cx.out, "}}"); }
                for ff in free_fns { let _ = writeln!(cx.out, "{}", ff); }
            }
            Item::Fn(f) => {
                if !process_attrs(cx, &mut f.attrs) { continue; }
                let key = format!("{}::{}", cx.cur_file, f.sig.ident);
                let l = f.sig.ident.span().start().line;
                if f.sig.unsafety.is_some() { cx.unsafe_seen += 1; cx.refuse("unsafe fn", f.sig.ident.span()); }
                process_sig_and_body(cx, &key, &mut f.sig, &mut f.block, None);
                emit_marker(cx, "fn", &key, l, " free=1");
                let _ = writeln!(cx.out, "pub {} {}", ts(&f.sig), ts(&f.block));
                cx.fns.push(serde_json::json!({"key": key, "file": cx.cur_src, "line": l}));
            }
            other => cx.refuse(&format!("item kind {}", ts(other).chars().take(40).collect::<String>()), Span::call_site()),
        }
    }
}

fn anchors_only(cx: &mut Ctx, items: &[Item]) {
    // record normalised signatures of every fn / trait / type alias in the file
    let mut sigs = Vec::new();
    fn walk(cx: &mut Ctx, items: &[Item], sigs: &mut Vec<String>) {
        for it in items {
            match it {
                Item::Fn(f) => { if f.attrs.iter().all(|a| !ts(a).contains("cfg (test)")) { sigs.push(ts(&f.sig)); } }
                Item::Impl(im) => {
                    if im.attrs.iter().any(|a| ts(a).contains("cfg (test)")) { continue; }
                    let hdr = format!("impl {} {} {}", ts(&im.generics.params), im.trait_.as_ref().map(|t| format!("{} for", ts(&t.1))).unwrap_or_default(), ts(&im.self_ty));
                    for ii in &im.items { if let ImplItem::Fn(f) = ii { sigs.push(format!("{} :: {}", hdr, ts(&f.sig))); } }
                }
                Item::Trait(t) => {
                    for ti in &t.items { if let TraitItem::Fn(f) = ti { sigs.push(format!("trait {} :: {}", t.ident, ts(&f.sig))); } }
                }
                Item::Type(t) => sigs.push(ts(t)),
                Item::Struct(s) => { let mut s = s.clone(); s.attrs.clear(); sigs.push(ts(&s)); }
                Item::Enum(s) => { let mut s = s.clone(); s.attrs.clear(); sigs.push(ts(&s)); }
                Item::Mod(m) => {
                    if m.attrs.iter().any(|a| ts(a).contains("cfg (test)")) { continue; }
                    if let Some((_, inner)) = &m.content { walk(cx, inner, sigs); }
                }
                _ => {}
            }
        }
    }
    walk(cx, items, &mut sigs);
    let k = format!("file:{}", cx.cur_file);
    cx.anchors.insert(k, sigs);
}

fn main() {
    let args: Vec<String> = std::env::args().collect();
    if args.len() != 4 {
        eprintln!("usage: vx-extract <repo/src dir> <out.rs> <out.meta.json>");
        std::process::exit(2);
    }
    let src = &args[1];
    let mut cx = Ctx {
        out: String::new(), refusals: vec![], rules: BTreeMap::new(), anchors: BTreeMap::new(), dropped: vec![],
        fns: vec![], cur_file: String::new(), cur_src: String::new(), unsafe_seen: 0, ke_methods: vec![], refused_fns: BTreeMap::new(),
    };
    for (m, rel) in FILES {
        let path = format!("{}/{}", src, rel);
        let text = match std::fs::read_to_string(&path) { Ok(t) => t, Err(e) => { eprintln!("LOST-ANCHOR: cannot read {}: {}", path, e); std::process::exit(2); } };
        let file = match syn::parse_file(&text) { Ok(f) => f, Err(e) => { eprintln!("PARSE-ERROR {}: {}", path, e); std::process::exit(2); } };
        cx.cur_file = m.to_string();
        cx.cur_src = format!("src/{}", rel);
        let _ = writeln!(cx.out, "//@file {} src/{}", m, rel);
        let mut ic = 0;
        process_items(&mut cx, file.items, &mut ic);
    }
    for (m, rel) in ANCHOR_ONLY {
        let path = format!("{}/{}", src, rel);
        let text = match std::fs::read_to_string(&path) { Ok(t) => t, Err(e) => { eprintln!("LOST-ANCHOR: cannot read {}: {}", path, e); std::process::exit(2); } };
        let file = match syn::parse_file(&text) { Ok(f) => f, Err(e) => { eprintln!("PARSE-ERROR {}: {}", path, e); std::process::exit(2); } };
        cx.cur_file = m.to_string();
        cx.cur_src = format!("src/{}", rel);
        anchors_only(&mut cx, &file.items);
    }
    std::fs::write(&args[2], &cx.out).unwrap();
    let meta = serde_json::json!({
        "rules_applied": cx.rules, "anchors": cx.anchors, "dropped": cx.dropped, "fns": cx.fns,
        "refusals": cx.refusals, "unsafe_seen": cx.unsafe_seen, "refused_fns": cx.refused_fns,
    });
    std::fs::write(&args[3], serde_json::to_string_pretty(&meta).unwrap()).unwrap();
    if !cx.refusals.is_empty() {
        for r in &cx.refusals { eprintln!("REFUSED {}", r); }
        std::process::exit(2);
    }
}
