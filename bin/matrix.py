#!/usr/bin/env python3
"""Cross matrix: every kept seeded change (seeded/<id>/patch.diff) x every property, run in isolation.

/repo is never touched: a scratch git worktree of /repo's HEAD and a snapshot copy of /verif (with every hard-coded
/repo path of the Kani and replay crates rewritten to the scratch worktree) are created under --scratch, the snapshot's
bin/seedtest.py is run there, and both are removed afterwards.  The result is testing of the machinery, not evidence:
it is written to seeded/MATRIX.md and gen/matrix.json of the real /verif.

usage: bin/matrix.py [--tag T] [--scratch /tmp/vx_matrix_T] [--props C01,C02,...] [seeded-dir ...]
Several instances with different tags can run side by side; bin/matrixmd.py merges gen/matrix_*.json into seeded/MATRIX.md.
"""
import json, os, shutil, subprocess, sys, time

V = os.path.dirname(os.path.dirname(os.path.abspath(__file__)))
args = sys.argv[1:]
tag = "main"
if "--tag" in args:
    i = args.index("--tag"); tag = args[i + 1]; del args[i:i + 2]
scratch = "/tmp/vx_matrix_%s_%d" % (tag, os.getpid())     # unique per launch: a leftover process of an earlier launch must never share it
props = None
if "--scratch" in args:
    i = args.index("--scratch"); scratch = args[i + 1]; del args[i:i + 2]
if "--props" in args:
    i = args.index("--props"); props = args[i + 1]; del args[i:i + 2]
dirs = args or sorted(os.path.join(V, "seeded", d) for d in os.listdir(os.path.join(V, "seeded")) if os.path.isdir(os.path.join(V, "seeded", d)))
dirs = [os.path.abspath(d) for d in dirs]
sys.path.insert(0, os.path.join(V, "bin"))
import vxprops
props = props or ",".join(sorted(vxprops.PROPS))

commit_at_launch = subprocess.run(["git", "-C", V, "rev-parse", "--short", "HEAD"], capture_output=True, text=True).stdout.strip() + \
    ("+uncommitted" if subprocess.run(["git", "-C", V, "status", "--porcelain"], capture_output=True, text=True).stdout.strip() else "")
mrepo = os.path.join(scratch, "repo")
mverif = os.path.join(scratch, "verif")
if os.path.exists(scratch):
    subprocess.run(["git", "-C", "/repo", "worktree", "remove", "--force", mrepo], capture_output=True)
    shutil.rmtree(scratch, ignore_errors=True)
os.makedirs(scratch)
try:
    subprocess.run(["git", "-C", "/repo", "worktree", "add", "--detach", mrepo, "HEAD"], check=True, capture_output=True)
    shutil.copy("/repo/Cargo.lock", os.path.join(mrepo, "Cargo.lock")) if not os.path.exists(os.path.join(mrepo, "Cargo.lock")) else None
    subprocess.run(["rsync", "-a", "--exclude", ".git", "--exclude", ".build/cache", "--exclude", ".build/replay2", "--exclude", "replays/*", V + "/", mverif + "/"], check=True)
    for rel in ["replay/Cargo.toml", "kani/api/Cargo.toml", "kani/leaf/src/lib.rs", "bin/seedtest.py", "bin/setup"]:
        p = os.path.join(mverif, rel)
        s = open(p).read().replace('"/repo', '"' + mrepo).replace(" /repo/", " " + mrepo + "/")
        open(p, "w").write(s)
    env = dict(os.environ, VX_REPO=mrepo)
    # the copied Cargo.lock of the worktree must not count as a change
    subprocess.run(["git", "-C", mrepo, "status", "--porcelain"], capture_output=True)
    t0 = time.time()
    log = open(os.path.join(V, "gen", "matrix_%s.log" % tag), "w")
    subprocess.run(["python3", os.path.join(mverif, "bin", "seedtest.py")] + dirs + ["--props", props], env=env, stdout=log, stderr=subprocess.STDOUT, cwd=mverif)
    res = json.load(open(os.path.join(mverif, "gen", "seedtest.json")))
    json.dump({"wall_s": round(time.time() - t0), "verif_commit": commit_at_launch, "results": res},
              open(os.path.join(V, "gen", "matrix_%s.json" % tag), "w"), indent=1)
finally:
    subprocess.run(["git", "-C", "/repo", "worktree", "remove", "--force", mrepo], capture_output=True)
    shutil.rmtree(scratch, ignore_errors=True)
    subprocess.run(["git", "-C", "/repo", "worktree", "prune"])

subprocess.run(["python3", os.path.join(V, "bin", "matrixmd.py")])
