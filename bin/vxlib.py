#!/usr/bin/env python3
"""Assembler + Verus runner for the opaque-ke contract verification.

extract (vx-extract, rustfmt)  ->  splice contracts (contracts/*.vc)  ->  gen/opaque_verif.rs
run verus (--output-json --time, rustc JSON diagnostics)  ->  per-clause / per-function verdicts.
"""
import hashlib
import json
import os
import re
import subprocess
import sys
import time

VERIF = os.path.dirname(os.path.dirname(os.path.abspath(__file__)))
REPO = os.environ.get("VX_REPO", "/repo")
GEN = os.path.join(VERIF, "gen")
EXTRACTOR = os.path.join(VERIF, ".build", "extractor", "debug", "vx-extract")


class Undecided(Exception):
    """extraction refusal, lost anchor, type error in generated text, rlimit: exit 2, never an alarm"""


# ------------------------------------------------------------------------------------------ contracts
class Contract:
    def __init__(self, key):
        self.key = key
        self.requires = []   # list of (label, text)
        self.ensures = []    # list of (label, text)
        self.proof = ""      # preamble inserted at the top of the body
        self.file = ""
        self.external = False    # `assume` : keep body external (listed as assumption)
        self.extra_generics = ""


class LoopContract:
    def __init__(self, key, ordinal):
        self.key, self.ordinal = key, ordinal
        self.iter_name = None
        self.invariant = ""
        self.body_proof = ""
        self.decreases = ""


def parse_contracts(cdir):
    fns, loops, impl_extra, before_return = {}, {}, {}, {}
    for name in sorted(os.listdir(cdir)):
        if not name.endswith(".vc"):
            continue
        path = os.path.join(cdir, name)
        cur, sect, clause = None, None, None
        kind = None

        def flush_clause():
            nonlocal clause
            if clause is not None and cur is not None and sect in ("requires", "ensures"):
                lab, txt = clause
                txt = txt.strip().rstrip(",")
                if txt:
                    getattr(cur, sect).append((lab, txt))
            clause = None

        for ln, raw in enumerate(open(path), 1):
            line = raw.rstrip("\n")
            s = line.strip()
            if s.startswith("#") or (not s and sect not in ("proof", "invariant", "body_proof", "extra")):
                continue
            m = re.match(r"^fn\s+(\S+)\s*$", line)
            if m and cur is None:
                cur = Contract(m.group(1)); cur.file = name; kind = "fn"; sect = None
                continue
            m = re.match(r"^loop\s+(\S+)\s+(\d+)\s*$", line)
            if m and cur is None:
                cur = LoopContract(m.group(1), int(m.group(2))); kind = "loop"; sect = None
                continue
            m = re.match(r"^impl_extra\s+(.+?)\s*$", line)
            if m and cur is None:
                cur = [m.group(1).replace(" ", ""), ""]; kind = "extra"; sect = "extra"
                continue
            if cur is None:
                raise Undecided(f"{path}:{ln}: text outside a contract block: {line}")
            if s == "end" and not line.startswith(" "):
                flush_clause()
                if kind == "fn":
                    if cur.key in fns:
                        raise Undecided(f"{path}:{ln}: duplicate contract for {cur.key}")
                    fns[cur.key] = cur
                elif kind == "loop":
                    loops[(cur.key, cur.ordinal)] = cur
                else:
                    impl_extra[cur[0]] = cur[1]
                cur, sect, kind = None, None, None
                continue
            if kind == "extra":
                cur[1] += line + "\n"
                continue
            if not line.startswith(" ") and s in ("requires", "ensures", "proof", "invariant", "body_proof", "assume_external"):
                flush_clause()
                sect = s
                if s == "assume_external":
                    cur.external = True
                continue
            m = re.match(r"^iter\s+(\w+)\s*$", line)
            if m and kind == "loop":
                cur.iter_name = m.group(1); continue
            m = re.match(r"^decreases\s+(.+)$", line)
            if m and kind == "loop":
                cur.decreases = m.group(1); continue
            if sect in ("requires", "ensures"):
                m = re.match(r"^\s*\[([\w.]+)\]\s*(.*)$", line)
                if m:
                    flush_clause()
                    clause = (m.group(1), m.group(2) + "\n")
                elif clause is not None:
                    clause = (clause[0], clause[1] + line + "\n")
                else:
                    raise Undecided(f"{path}:{ln}: clause without [label]: {line}")
            elif sect == "proof":
                cur.proof += line + "\n"
            elif sect == "invariant":
                cur.invariant += line + "\n"
            elif sect == "body_proof":
                cur.body_proof += line + "\n"
            else:
                raise Undecided(f"{path}:{ln}: unexpected line: {line}")
        if cur is not None:
            raise Undecided(f"{path}: unterminated block")
    return fns, loops, impl_extra


# ------------------------------------------------------------------------------------------ extraction
def sha(path_list):
    h = hashlib.sha256()
    for p in sorted(path_list):
        h.update(p.encode())
        with open(p, "rb") as f:
            h.update(f.read())
    return h.hexdigest()


def repo_sources():
    out = []
    for root, _, files in os.walk(os.path.join(REPO, "src")):
        if "/tests" in root:
            continue
        for f in files:
            if f.endswith(".rs") and f != "tests.rs":
                out.append(os.path.join(root, f))
    return out


def run_extractor():
    os.makedirs(GEN, exist_ok=True)
    tag = os.environ.get("VX_TAG", "")      # development runs next to a running check use their own intermediate files
    out_rs = os.path.join(GEN, "extracted%s.rs" % tag)
    meta = os.path.join(GEN, "extract%s.meta.json" % tag)
    if not os.path.exists(EXTRACTOR):
        raise Undecided("extractor not built: run MANIFEST.setup_cmd")
    p = subprocess.run([EXTRACTOR, os.path.join(REPO, "src"), out_rs, meta], capture_output=True, text=True)
    if p.returncode != 0:
        raise Undecided("extractor refused:\n" + p.stderr)
    p = subprocess.run(["rustfmt", "--edition", "2021", "--config", "max_width=140", out_rs], capture_output=True, text=True)
    if p.returncode != 0:
        raise Undecided("rustfmt failed on extracted text:\n" + p.stderr[:2000])
    m = json.load(open(meta))
    m["anchors"]["i2osp_instantiations"] = i2osp_instantiations()
    return out_rs, m


def i2osp_instantiations():
    """every length-prefix width the crate instantiates `i2osp` / `Input` with (the Kani harnesses prove `i2osp` for exactly these);
    `L1` / `L` are the generic parameters forwarded inside serialization/mod.rs itself"""
    found = set()
    for f in repo_sources():
        t = open(f).read()
        t = re.sub(r"//[^\n]*", "", t)
        cut = t.find("#[cfg(test)]\nmod ")
        if cut >= 0:
            t = t[:cut]
        for mm in re.finditer(r"\bInput\s*(?:::)?\s*<\s*(?:'\w+\s*,\s*)?([A-Za-z_][\w:]*)", t):
            found.add(mm.group(1).rstrip(":"))
        for mm in re.finditer(r"\bi2osp\s*::\s*<\s*([A-Za-z_][\w:]*)", t):
            found.add(mm.group(1).rstrip(":"))
    return sorted(found)


def check_anchors(meta, body=False):
    """anchors that differ from verus/anchors.json.  `body:<file>::<Trait>::<fn>` anchors (functions whose prelude contract was written for
    one exact body text) are reported separately (body=True): losing one makes that function 'refused', not the whole run undecided"""
    exp_path = os.path.join(VERIF, "verus", "anchors.json")
    if not os.path.exists(exp_path):
        return []
    exp = json.load(open(exp_path))
    lost = []
    for k, v in exp.items():
        if k.startswith("body:") != body:
            continue
        if k == "refused_baseline":
            continue      # not an anchor of the source text: the list of functions refused by the extractor on the verified baseline (vxrun.refused_baseline)
        if k == "serde_attrs":
            continue      # reported through serde_attrs_differ(): the safety net and the serde-dependent properties react, not the whole run
        got = meta["anchors"].get(k)
        if got != v:
            lost.append(k)
    return lost


def serde_attrs_differ(meta):
    """the premise of 'derived serde impls are field-wise' (no field-level skip / with / default / rename, same container bounds)"""
    exp_path = os.path.join(VERIF, "verus", "anchors.json")
    if not os.path.exists(exp_path):
        return None
    exp = json.load(open(exp_path)).get("serde_attrs")
    got = meta["anchors"].get("serde_attrs", [])
    if exp is None or exp == got:
        return None
    extra = [x for x in got if x not in exp] + ["(removed) " + x for x in exp if x not in got]
    return "; ".join(extra)[:400] or "order changed"


# ------------------------------------------------------------------------------------------ assembly
def match_angle(text, start):
    """text[start] == '<' ; return index of the matching '>' (ignores '->' arrows)"""
    depth = 0
    i = start
    while i < len(text):
        c = text[i]
        if c == "<":
            depth += 1
        elif c == ">" and text[i - 1] != "-":
            depth -= 1
            if depth == 0:
                return i
        i += 1
    raise Undecided("unbalanced angle brackets in extracted text")


def hexbytes_to_seq(hx):
    bs = [hx[i:i + 2] for i in range(0, len(hx), 2)]
    return ", ".join("0x%su8" % b for b in bs), len(bs)


class Assembled:
    def __init__(self):
        self.lines = []
        self.clause_at = {}      # line no (1-based) -> (fnkey, label, kind)
        self.fn_ranges = []      # (start, end, fnkey)
        self.fn_bodies = {}      # fnkey -> body text (for the callee scan)
        self.lost_contracts = []   # contract keys without a function in the tree
        self.auto_contracts = []   # functions without contract whose body is one pure expression: `ensures r == body` generated and verified
        self.calls_uncontracted = {}   # fnkey -> [uncontracted callee keys it mentions]
        self.contracted = []     # fn keys with a contract
        self.uncontracted = []   # fn keys without
        self.external = []       # fn keys kept external by contract (assumed)
        self.external_reason = {}
        self.clauses = {}        # (fnkey,label) -> text

    def add(self, text):
        for l in text.split("\n"):
            self.lines.append(l)

    def lineno(self):
        return len(self.lines) + 1


def assemble(vacuity=False, only_files=None, extra_theorems=True, extracted=None, force_external=None, drop_contract=None):
    """force_external: {fn key: reason} — functions whose body made the generated text fail to type-check: emitted without body,
    contract assumed, reported as refused (graceful degradation instead of a global UNDECIDED)"""
    out_rs, meta = extracted if extracted is not None else run_extractor()
    force_external = dict(force_external or {})
    fns, loops, impl_extra = parse_contracts(os.path.join(VERIF, "contracts"))
    src = open(out_rs).read()
    A = Assembled()
    A.meta = meta
    A.refused = {k: v for k, v in (meta.get("refused_fns") or {}).items()}
    for k, v in force_external.items():
        A.refused.setdefault(k, []).append(v)
    # functions that stay prelude contracts and are anchored by their body text
    exp_path = os.path.join(VERIF, "verus", "anchors.json")
    body_keys = [k[5:] for k in (json.load(open(exp_path)) if os.path.exists(exp_path) else {}) if k.startswith("body:")]
    lost_bodies = [k[5:] for k in check_anchors(meta, body=True)]
    for k in body_keys:
        if k in lost_bodies:
            A.refused.setdefault(k, []).append("body differs from the one its prelude contract was written for (anchor " + k + ")")
            A.uncontracted.append(k)
        else:
            A.contracted.append(k)
            A.external.append(k)
    drop_contract = dict(drop_contract or {})
    for k, v in drop_contract.items():
        A.refused.setdefault(k, []).append("contract no longer type-checks against the function's signature / types: " + v[:300])
    A.add("// GENERATED by bin/vxlib.py from /repo/src (rules R1-R14, DESIGN.md 2.2) — do not edit")
    A.add("#![allow(unused_imports, dead_code, unused_variables, unused_mut, unused_parens, non_snake_case, unreachable_code, unused_braces, unreachable_patterns, type_alias_bounds)]")
    A.add("use vstd::prelude::*;")
    A.add("use core::marker::PhantomData;")
    A.add("use core::convert::Infallible;")
    A.add("use core::convert::TryFrom;")
    A.add("verus! {")
    A.add("// ===================================================================== PRELUDE")
    A.add(open(os.path.join(VERIF, "verus", "prelude.rs")).read())
    A.spec_start = A.lineno()
    A.add("// ===================================================================== SPEC (RFC 9807 / RFC 9497)")
    A.add(open(os.path.join(VERIF, "verus", "spec_rfc.rs")).read())
    A.add("// ===================================================================== EXTRACTED from /repo/src")
    A.extracted_start = A.lineno()

    used_fn_contracts = set()
    used_loops = set()
    seen_types = {}
    lines = src.split("\n")
    i = 0
    cur_file = None
    skip_file = False
    pending_from = None  # (impl header info) for FromSpecImpl generation
    n = len(lines)

    def emit_fn(key, block_lines, in_trait_impl_from, dup=False, trait_path=None, assoc_names=(), free_self=None):
        """block_lines: the formatted text of one fn (signature + body).
        dup=True (vacuity twin only): emit a renamed copy `<name>__vac` whose contract additionally ensures `false`;
        the copy must FAIL verification.  Callers keep calling the original, so a twin never contaminates its callers."""
        text = "\n".join(block_lines)
        c = fns.get(key)
        if key in drop_contract:
            if dup:
                return
            if c is not None:
                used_fn_contracts.add(key)
            c = None
        if dup:
            if c is None or c.external or not c.ensures:
                return
            text = re.sub(r"\bfn\s+(\w+)", lambda mm: "fn " + mm.group(1) + "__vac", text, count=1)
            if trait_path:
                text = re.sub(r"^(\s*)fn ", r"\1pub fn ", text, count=1)
                for an in assoc_names:
                    text = re.sub(r"\bSelf::%s\b" % an, "<Self as %s>::%s" % (trait_path, an), text)
            if free_self:
                gname, gbound = free_self
                text = re.sub(r"\bSelf::(\w+)", lambda mm: "<%s as %s>::%s" % (gname, trait_path, mm.group(1)) if mm.group(1)[0].islower() else mm.group(0), text)
                text = re.sub(r"\bSelf\b", gname, text)
                # a `self` receiver becomes an ordinary parameter of the free function
                text = re.sub(r"\(\s*&\s*mut\s+self\b", "(this: &mut " + gname, text, count=1)
                text = re.sub(r"\(\s*&\s*self\b", "(this: &" + gname, text, count=1)
                text = re.sub(r"\(\s*(mut\s+)?self\b", "(this: " + gname, text, count=1)
                text = re.sub(r"\bself\b", "this", text)
                mfn = re.search(r"\bfn\s+\w+__vac\s*(<)?", text)
                if mfn.group(1):
                    # lifetimes stay first
                    ml = re.match(r"((\s*'\w+\s*,?)*)", text[mfn.end():])
                    at = mfn.end() + len(ml.group(1))
                    lead = text[mfn.end():at]
                    sep = "" if (not lead.strip() or lead.rstrip().endswith(",")) else ", "
                    rest = text[at:]
                    text = text[:at] + sep + gbound + ("" if rest.lstrip().startswith(">") else ", ") + rest
                else:
                    text = text[:mfn.end()] + "<" + gbound + ">" + text[mfn.end():]
        # return type wrapper
        k = text.find("-> __R<")
        ret_named = False
        if k >= 0:
            a = k + len("-> __R")
            b = match_angle(text, a)
            inner = text[a + 1:b]
            text = text[:k] + "-> (r: " + inner.strip() + ")" + text[b + 1:]
            ret_named = True
        marker = '__contract__!("%s");' % key
        m = text.find(marker)
        if m < 0:
            raise Undecided(f"contract marker lost for {key}")
        # opening brace = last '{' before the marker
        ob = text.rfind("{", 0, m)
        head, body_rest = text[:ob], text[m + len(marker):]
        start_line = A.lineno()
        if c is not None and c.external and key in A.refused:
            # body outside the rules AND the contract file says so: assumed contract, discharged elsewhere (stated in the .vc file)
            A.external_reason[key] = A.refused.pop(key)
        is_refused = key in A.refused
        if is_refused and dup:
            return
        if is_refused:
            body_rest = "\n    unimplemented!()\n}"
            if c is not None:
                used_fn_contracts.add(key)
            if key in drop_contract or c is None:
                A.uncontracted.append(key)     # its callers' failures are "needs contract"
            A.add("#[verifier::external_body] /*REFUSED: body outside the extraction rules or not type-checkable; contract assumed*/")
        elif dup:
            pass
        elif c is not None:
            used_fn_contracts.add(key)
            if c.external:
                A.external.append(key)
                A.add("#[verifier::external_body] /*DECLARED assume_external in the contract file: contract assumed by Verus, discharged elsewhere (listed in the evidence)*/")
            else:
                A.contracted.append(key)
        else:
            # a function without contract (new to the tree).  If its body is ONE side-effect-free expression, the strongest postcondition is the
            # body itself: `ensures r == <body>` is generated and VERIFIED against the body like any other clause (nothing is assumed).  If Verus
            # cannot read the expression in spec mode the generated contract fails to type-check and is dropped again (drop_contract).
            expr = body_rest.strip()
            expr = expr[:-1].strip() if expr.endswith("}") else expr
            simple = ret_named and expr and key not in drop_contract and key not in force_external and not in_trait_impl_from \
                and not re.search(r";|\breturn\b|\bmatch\b|\bif\b|\bfor\b|\bwhile\b|\bloop\b|\bunimplemented\b|\bunreached\b|&mut\b|__loop__|\?", expr) \
                and "&mut" not in head and "[From<" not in key
            if simple:
                c = Contract(key)
                c.ensures = [("auto", "r == (" + expr + ")")]
                c.auto = True
                A.contracted.append(key)
                A.auto_contracts.append(key)
            else:
                A.uncontracted.append(key)
        A.add(head.rstrip())
        if c is not None:
            if c.requires:
                A.add("    requires")
                for lab, txt in c.requires:
                    ln = A.lineno()
                    A.add("        " + txt.replace("\n", "\n        ") + ",")
                    for q in range(ln, A.lineno()):
                        A.clause_at[q] = (key, lab + ("__dup" if dup else ""), "requires")
                    if not dup:
                        A.clauses[(key, lab)] = txt
            ens = [] if dup else list(c.ensures)
            if dup:
                ens = [(lab + "__dup", txt) for lab, txt in c.ensures] + [("__vacuity", "false")]
            if ens:
                A.add("    ensures")
                for lab, txt in ens:
                    ln = A.lineno()
                    A.add("        " + txt.replace("\n", "\n        ") + ",")
                    for q in range(ln, A.lineno()):
                        A.clause_at[q] = (key, lab, "ensures")
                    A.clauses[(key, lab)] = txt
        elif vacuity:
            pass
        A.add("{")
        if c is not None and c.proof.strip() and not c.external and not is_refused:
            A.add("    proof {")
            A.add(c.proof.rstrip("\n"))
            A.add("    }")
        # loops
        def loop_sub(mm):
            k2, o = mm.group(1), int(mm.group(2))
            return "__LOOPMARK_%d__" % o
        body_rest = re.sub(r'__loop__!\("([^"]+)",\s*(\d+)usize\);', loop_sub, body_rest)
        for o in range(0, 8):
            mark = "__LOOPMARK_%d__" % o
            p = body_rest.find(mark)
            if p < 0:
                continue
            lc = loops.get((key, o))
            if lc is None:
                raise Undecided(f"{key}: loop #{o} has no loop contract")
            used_loops.add((key, o))
            ob2 = body_rest.rfind("{", 0, p)
            hdr_start = body_rest.rfind("for ", 0, ob2)
            hdr = body_rest[hdr_start:ob2]
            if lc.iter_name:
                hdr = re.sub(r"\bin\b", "in %s:" % lc.iter_name, hdr, count=1)
            inv = "\n        invariant\n" + lc.invariant.rstrip("\n") + "\n"
            if lc.decreases:
                inv += "        decreases " + lc.decreases + "\n"
            bp = ("\n        proof {\n" + lc.body_proof.rstrip("\n") + "\n        }\n") if lc.body_proof.strip() else ""
            body_rest = body_rest[:hdr_start] + hdr.rstrip() + inv + "    {" + bp + body_rest[p + len(mark):]
        A.add(body_rest.lstrip("\n").rstrip())
        if free_self:
            # contract clauses and loop invariants were spliced in after the receiver was renamed
            for q in range(start_line - 1, len(A.lines)):
                A.lines[q] = re.sub(r"\bself\b", "this", A.lines[q])
        A.fn_ranges.append((start_line, A.lineno() - 1, key + ("__vac" if dup else "")))
        if not dup:
            A.fn_bodies[key] = body_rest

    def collect_block(start):
        """collect a brace-balanced item starting at lines[start]; returns (block_lines, next_index)"""
        depth, j, seen = 0, start, False
        buf = []
        while j < n:
            l = lines[j]
            if l.lstrip().startswith("//@item") and seen and depth <= base_depth[0]:
                break
            buf.append(l)
            # strip string/char literals crudely before counting braces
            ll = re.sub(r'"(\\.|[^"\\])*"', '""', l)
            ll = re.sub(r"'(\\.|[^'\\])'", "''", ll)
            depth += ll.count("{") - ll.count("}")
            if "{" in ll or ll.rstrip().endswith(";"):
                seen = True
            j += 1
            if seen and depth == 0:
                break
        return buf, j

    base_depth = [0]
    impl_stack = []  # inside impl block?
    while i < n:
        l = lines[i]
        s = l.strip()
        if s.startswith("//@file"):
            if cur_file is not None and not skip_file:
                A.add("} // mod x_" + cur_file)
                A.add("pub use x_" + cur_file + "::*;")
            cur_file = s.split()[1]
            skip_file = only_files is not None and cur_file not in only_files
            if not skip_file:
                A.add("// ---------------------------------------------------------------- " + s[8:])
                A.add("pub mod x_" + cur_file + " {")
                A.add("use super::*;")
                A.add("use crate::serde::de::Error as _;")
                if cur_file == "keypair":
                    A.add("use crate::serde::{Deserialize as _, Serialize as _};   // in scope inside the serde impls of the source")
                if cur_file == "group_ec":
                    # the file's own `use elliptic_curve::{..}` lines (explicit imports shadow the crate's PublicKey / SecretKey of `use super::*`)
                    A.add("use crate::elliptic_curve::{self, ExpandMsgXmd, Field, FieldBytesSize, Group, GroupDigest, ModulusSize, ProjectivePoint, PublicKey, Scalar, SecretKey, ToEncodedPoint};")
            i += 1
            continue
        if skip_file:
            i += 1
            continue
        if s.startswith("//@item"):
            kv = dict(x.split("=", 1) for x in s.split()[1:] if "=" in x)
            kind, key = kv["kind"], kv["key"]
            A.add("    " * (1 if impl_stack else 0) + "// " + s[7:].strip())
            i += 1
            if kind == "static_slice":
                seq, cnt = hexbytes_to_seq(kv["bytes"])
                nm = kv["name"]
                A.add(f"pub exec const {nm}: &'static [u8]\n    ensures {nm}@ == seq![{seq}]\n{{\n    let a: &'static [u8; {cnt}] = &[{seq}];\n    a\n}}")
                continue
            if kind == "fn":
                base_depth[0] = 0
                buf, i = collect_block(i)
                emit_fn(key, buf, False)
                if vacuity:
                    emit_fn(key, buf, False, dup=True)
                continue
            if kind == "clone":
                base_depth[0] = 0
                buf, i = collect_block(i)
                t = "\n".join(buf).replace("-> __R<Self>", "-> (r: Self)").replace("__clone_contract__!();", "")
                t = t.replace("fn clone(&self) -> (r: Self) {", "fn clone(&self) -> (r: Self)\n        ensures r == *self,\n    {")
                t = t.replace("#[verifier::external_body]", "#[verifier::external_body] /*R12*/")
                A.add(t)
                # an optional `impl Copy` line follows
                if i < n and lines[i].startswith("impl") and " Copy for " in lines[i]:
                    A.add(lines[i]); i += 1
                continue
            if kind == "type":
                buf, i = collect_block(i)
                t = "\n".join(buf)
                nm = key.split("::")[-1]
                norm = re.sub(r"\s+", "", t)
                if nm in seen_types:
                    if seen_types[nm] != norm:
                        raise Undecided(f"type alias {nm} defined twice with different bodies")
                    A.add("// (duplicate alias, identical to the earlier one)")
                    continue
                seen_types[nm] = norm
                A.add(t)
                continue
            if kind in ("struct", "enum", "const", "trait", "const_plain"):
                buf, i = collect_block(i)
                if kind == "const":
                    t = "\n".join(buf)
                    mm = re.search(r"pub const (\w+):[^=]*=\s*&?\[(.*)\];", t, re.S)
                    if mm:
                        nm, elems = mm.group(1), re.sub(r"\s+", " ", mm.group(2)).strip().rstrip(",")
                        A.add("\n".join(buf))
                        A.add(f"pub proof fn lemma_const_{nm}() ensures {nm}@ == seq![{elems}] {{ assert({nm}@ =~= seq![{elems}]); }}")
                        continue
                if kind == "enum" and key.startswith("errors::"):
                    A.add("#[derive(Debug)]")
                if kind == "struct" and kv.get("default") == "true":
                    A.add("#[derive(Default)]")
                A.add("\n".join(buf))
                continue
            if kind == "impl":
                # header line(s) up to the opening brace
                hdr = []
                while i < n:
                    hdr.append(lines[i]); i += 1
                    if hdr[-1].rstrip().endswith("{") or hdr[-1].rstrip().endswith("{}"):
                        break
                hdr_text = "\n".join(hdr)
                is_from = kv.get("from") == "true" or kv.get("trait", "").startswith("TryFrom<")
                impl_hdr_norm = re.sub(r"\s+", "", hdr_text)
                A.add(hdr_text)
                if hdr_text.rstrip().endswith("{}"):
                    continue
                # impl_extra
                hn = re.sub(r"\s+", " ", hdr_text).strip()
                mh = None
                if hn.startswith("impl") and hn.endswith("{"):
                    rest = hn[4:-1].strip()
                    if rest.startswith("<"):      # skip the (possibly nested) generic parameter list
                        d = 0
                        for q, ch in enumerate(rest):
                            d += ch == "<"; d -= ch == ">"
                            if d == 0:
                                rest = rest[q + 1:].strip(); break
                    mh = rest
                if mh:
                    k2 = mh.replace(" ", "").rstrip(",")
                    if k2 in impl_extra:
                        A.add(impl_extra[k2].rstrip("\n"))
                        impl_extra.pop(k2)
                impl_stack.append((hdr_text, is_from))
                # process nested items until the closing brace at column 0
                from_fn = None
                dups = []
                mt = re.match(r"^impl\s*(<.*?>)?\s*(.+?) for (.+?)\s*\{$", re.sub(r"\s+", " ", hdr_text).strip())
                trait_path = mt.group(2) if mt and " for " in re.sub(r"\s+", " ", hdr_text) else None
                assoc_names = []
                impl_fn_keys = []
                while i < n and lines[i] != "}":
                    s2 = lines[i].strip()
                    if s2.startswith("//@item"):
                        kv2 = dict(x.split("=", 1) for x in s2.split()[1:] if "=" in x)
                        A.add("    // " + s2[7:].strip())
                        i += 1
                        base_depth[0] = 0
                        buf, i = collect_block(i)
                        emit_fn(kv2["key"], buf, is_from)
                        impl_fn_keys.append(kv2["key"])
                        if is_from:
                            from_fn = (kv2["key"], buf)
                        if vacuity:
                            if trait_path is None:
                                emit_fn(kv2["key"], buf, is_from, dup=True)
                            else:
                                dups.append((kv2["key"], buf))
                    else:
                        ma = re.match(r"^\s*type (\w+)", lines[i])
                        if ma:
                            assoc_names.append(ma.group(1))
                        A.add(lines[i]); i += 1
                r10 = trait_path == "KeGroup" and not any(k.endswith("::derive_auth_keypair") for k in impl_fn_keys)
                if r10:
                    # rule R10: the impl inherits the trait's default method, which is extracted once as `derive_auth_keypair_default`.
                    # Inside the impl the delegation cannot be verified (Verus rejects the trait-impl cycle): external_body here, and the
                    # SAME body is verified against the trait-level clause as a free function right after the impl.
                    A.add("    #[verifier::external_body] /*R10: default method of the trait, not overridden by this impl; verified below as derive_auth_keypair__inherited*/")
                    A.add("    fn derive_auth_keypair<CS: voprf::CipherSuite>(seed: GenericArray<u8, Self::SkLen>) -> (r: Result<Self::Sk, InternalError>) { derive_auth_keypair_default::<Self, CS>(seed) }")
                A.add("}")
                i += 1
                impl_stack.pop()
                blanket0 = re.match(r"^(\w+) where (.+?),?$", mt.group(3).strip()) if mt else None
                if r10 and blanket0:
                    gname, gbound = blanket0.group(1), blanket0.group(2)
                    dkey = impl_fn_keys[0].rsplit("::", 1)[0] + "::derive_auth_keypair"
                    c = fns.get(dkey)
                    for dupflag in ([False, True] if vacuity else [False]):
                        nm = "derive_auth_keypair__inherited" + ("__vac" if dupflag else "")
                        A.add(f"// kind=fn key={dkey} (R10 delegation, checked copy)")
                        A.add(f"pub fn {nm}<{gbound}, CS: voprf::CipherSuite>(seed: GenericArray<u8, <{gname} as KeGroup>::SkLen>) -> (r: Result<<{gname} as KeGroup>::Sk, InternalError>)")
                        A.add("    ensures")
                        ln = A.lineno()
                        A.add(f"        r == <{gname} as KeGroup>::derive_spec::<CS>(seed@),")
                        A.clause_at[ln] = (dkey, "trait:r == Self::derive_spec::<CS>(seed@)" + ("__dup" if dupflag else ""), "ensures")
                        if not dupflag:
                            A.clauses[(dkey, "trait:r == Self::derive_spec::<CS>(seed@)")] = "r == Self::derive_spec::<CS>(seed@)"
                        if c is not None:
                            used_fn_contracts.add(dkey)
                            if not dupflag:
                                A.contracted.append(dkey)
                            for lab, txt in c.ensures:
                                ln = A.lineno()
                                A.add("        " + txt.replace("\n", "\n        ") + ",")
                                for q in range(ln, A.lineno()):
                                    A.clause_at[q] = (dkey, lab + ("__dup" if dupflag else ""), "ensures")
                                if not dupflag:
                                    A.clauses[(dkey, lab)] = txt
                        if dupflag:
                            ln = A.lineno()
                            A.add("        false,")
                            A.clause_at[ln] = (dkey, "__vacuity", "ensures")
                            A.clauses[(dkey, "__vacuity")] = "false"
                        A.add("{")
                        if c is not None and c.proof.strip():
                            A.add("    proof {"); A.add(c.proof.rstrip("\n")); A.add("    }")
                        A.add(f"    derive_auth_keypair_default::<{gname}, CS>(seed)")
                        A.add("}")
                blanket = re.match(r"^(\w+) where (.+?),?$", mt.group(3).strip()) if mt else None
                if mt and not blanket and mt.group(1):
                    # `impl<T: Bound> Trait for T`: the bound sits in the generic parameter list
                    gm = re.match(r"^<\s*(\w+)\s*:\s*(.+)>$", mt.group(1).strip())
                    if gm and gm.group(1) == mt.group(3).strip():
                        class _B:       # same shape as the regex match above
                            def __init__(self, a, b): self._g = (a, b)
                            def group(self, i): return self._g[i - 1]
                        blanket = _B(gm.group(1), gm.group(1) + ": " + gm.group(2).strip())
                if dups and mt and blanket:
                    # blanket impl `impl<G> Trait for G where G: B`: an inherent impl on a type parameter does not exist, the twins are free functions generic in G
                    impl_stack.append((hdr_text, False))
                    for dk, dbuf in dups:
                        emit_fn(dk, dbuf, False, dup=True, trait_path=trait_path, assoc_names=assoc_names, free_self=(blanket.group(1), blanket.group(2)))
                    impl_stack.pop()
                elif dups and mt:
                    impl_stack.append((hdr_text, False))
                    A.add(f"impl{mt.group(1) or ''} {mt.group(3)} {{   // vacuity twins of the trait-impl methods above")
                    for dk, dbuf in dups:
                        emit_fn(dk, dbuf, False, dup=True, trait_path=trait_path, assoc_names=assoc_names)
                    A.add("}")
                    impl_stack.pop()
                if is_from and from_fn is not None:
                    gen_from_spec(A, hdr_text, from_fn[1])
                continue
            raise Undecided(f"unknown item kind {kind}")
        # stray line (e.g. blank)
        if s:
            A.add(l)
        i += 1

    if cur_file is not None and not skip_file:
        A.add("} // mod x_" + cur_file)
        A.add("pub use x_" + cur_file + "::*;")
    # which functions call a function that has no contract (typically a function new to the tree)?
    for uk in A.uncontracted:
        parts = uk.split("::")
        name = parts[-1]
        pats = []
        if len(parts) >= 3:
            ty = parts[-2]
            pats.append(r"\b(%s|Self)\s*(::\s*<[^;{}]*?>)?\s*::\s*%s\b" % (re.escape(ty), re.escape(name)))
            pats.append(r"\.\s*%s\s*(::\s*<[^;{}]*?>)?\s*\(" % re.escape(name))
        else:
            pats.append(r"(?<![\w:.])%s\s*(::\s*<[^;{}]*?>)?\s*\(" % re.escape(name))
        for fk, body in A.fn_bodies.items():
            if fk != uk and any(re.search(pt, body) for pt in pats):
                A.calls_uncontracted.setdefault(fk, []).append(uk)
    if only_files is None:
        # a contract whose function no longer exists (helper removed / renamed): only the properties that name it become undecided
        A.lost_contracts = [k for k in fns if k not in used_fn_contracts]
        # a loop contract whose loop is gone: if the function's body was dropped (refused) or the function no longer exists, that is already
        # reported there; otherwise the function still verifies or fails on its own clauses, and the stale invariant is recorded as a refusal
        missingl = [k for k in loops if k not in used_loops and k[0] not in A.refused and k[0] not in A.lost_contracts]
        for k in missingl:
            A.refused.setdefault(k[0], []).append("loop %d of the function no longer exists (its loop contract has nothing to attach to)" % k[1])
        if impl_extra:
            raise Undecided("LOST-ANCHOR: impl_extra without an impl: " + ", ".join(impl_extra))
    A.add("// ===================================================================== THEOREMS")
    th_path = os.path.join(VERIF, "verus", "theorems.rs")
    A.theorem_start = A.lineno()
    if extra_theorems and os.path.exists(th_path) and only_files is None:
        th = open(th_path).read()
        if vacuity:
            th = vacuity_theorems(th)
        A.add(th)
    A.add("} // verus!")
    A.add("fn main() {}")
    return A


def vacuity_theorems(text):
    """every theorem with a `//@vacuity` marker gets a renamed copy `<name>__vac` that additionally ensures `false`
    (the copy must FAIL); the original stays intact so that theorems calling it are not contaminated"""
    lines = text.split("\n")
    out, i, n = [], 0, len(lines)
    while i < n:
        m = re.match(r"^pub (proof |exec )?fn (\w+)", lines[i])
        if not m:
            out.append(lines[i]); i += 1
            continue
        j = i
        while j < n and lines[j] not in ("}", "{}"):
            j += 1
        item = lines[i:j + 1]
        out += item
        if any("//@vacuity" in l for l in item):
            dup = "\n".join(item)
            dup = re.sub(r"\bfn (\w+)", lambda mm: "fn " + mm.group(1) + "__vac", dup, count=1)
            dup = dup.replace("//@vacuity", "false,")
            out += dup.split("\n")
        i = j + 1
    return "\n".join(out)


def gen_from_spec(A, hdr_text, fn_lines):
    """impl From<X> for Y { fn from(p: X) -> Self { EXPR } }  ==>  FromSpecImpl with from_spec(p) = EXPR"""
    hdr = re.sub(r"\s+", " ", hdr_text).strip()
    m = re.match(r"^impl\s*(<[^{]*?>)?\s*(Try)?From<(.*)> for (.*?)\s*\{$", hdr)
    if not m:
        raise Undecided("cannot parse From impl header: " + hdr)
    gens, is_try, src_t, dst_t = m.group(1) or "", bool(m.group(2)), m.group(3), m.group(4)
    text = "\n".join(fn_lines)
    pm = re.search(r"fn (?:try_)?from\(\s*(\w+):", text)
    if not pm:
        raise Undecided("cannot find From::from parameter: " + text)
    p = pm.group(1)
    mk = text.find('");')
    body = text[mk + 3:]
    body = body[:body.rfind("}")].strip()
    if ";" in body:
        raise Undecided("From::from body is not a single expression: " + body)
    if is_try:
        A.add(f"impl{gens} vstd::std_specs::convert::TryFromSpecImpl<{src_t}> for {dst_t} {{")
        A.add("    open spec fn obeys_try_from_spec() -> bool { true }")
        A.add(f"    open spec fn try_from_spec({p}: {src_t}) -> Result<Self, Self::Error> {{ {body} }}")
        A.add("}")
        return
    A.add(f"impl{gens} vstd::std_specs::convert::FromSpecImpl<{src_t}> for {dst_t} {{")
    A.add("    open spec fn obeys_from_spec() -> bool { true }")
    A.add(f"    open spec fn from_spec({p}: {src_t}) -> Self {{ {body} }}")
    A.add("}")


# ------------------------------------------------------------------------------------------ running verus
def run_verus(path, rlimit=None, extra=None, timeout=1800):
    cmd = ["verus", path, "--output-json", "--time", "--multiple-errors", "40", "--num-threads", "16"]
    if rlimit:
        cmd += ["--rlimit", str(rlimit)]
    if extra:
        cmd += extra
    cmd += ["--", "--error-format=json"]
    t0 = time.time()
    try:
        p = subprocess.run(cmd, capture_output=True, text=True, timeout=timeout, cwd=os.path.dirname(os.path.abspath(path)))
    except subprocess.TimeoutExpired:
        raise Undecided("verus timed out")
    wall = time.time() - t0
    # stdout: one JSON document (possibly preceded by noise); stderr: one JSON diagnostic per line
    out = p.stdout
    js = None
    k = out.find("{")
    if k >= 0:
        try:
            js = json.loads(out[k:])
        except Exception:
            js = None
    diags = []
    for line in p.stderr.split("\n"):
        line = line.strip()
        if line.startswith("{"):
            try:
                diags.append(json.loads(line))
            except Exception:
                pass
    return {"cmd": " ".join(cmd), "rc": p.returncode, "json": js, "diags": diags, "wall": wall, "stderr": p.stderr, "stdout": p.stdout}


def classify(A, res):
    """map diagnostics to (fnkey,label) clause failures, function-level failures, and hard errors"""
    hard_fns = {}           # fnkey -> first hard error inside that function (type error / unsupported construct)
    failed_clauses = {}     # (fnkey,label) -> [messages]
    failed_fns = {}         # fnkey -> [messages]   (assert / precondition / overflow ... inside the body)
    hard = []               # compile / type / unsupported errors -> undecided
    theorem_fail = {}       # theorem fn name -> messages
    rlimit = []
    panic_fns = {}          # subset of failed_fns: the failing obligation is a panic condition of the executable code

    def fn_of_line(ln):
        for a, b, k in A.fn_ranges:
            if a <= ln <= b:
                return k
        return None

    for d in res["diags"]:
        if d.get("level") != "error":
            continue
        msg = d.get("message", "")
        if msg.startswith("aborting due to"):
            continue
        spans = d.get("spans", [])
        if "resource limit" in msg or "rlimit" in msg:
            # a vacuity twin (`..__vac`, contract + `ensures false`) that runs out of resources did NOT prove false: that is the required
            # outcome for a twin (non-vacuous as far as the budget reaches), not an undecided obligation
            prim = [sp for sp in spans if sp.get("is_primary")] or spans
            twin = None
            for sp in prim:
                ln = sp["line_start"]
                head = " ".join(A.lines[ln - 1:ln + 2]) if 0 < ln <= len(A.lines) else ""
                mt_ = re.search(r"\bfn\s+(\w+__vac)\b", head)
                if mt_:
                    twin = (mt_.group(1), ln); break
            if twin:
                nm, ln = twin
                if ln >= A.theorem_start:
                    theorem_fail.setdefault(nm, []).append("rlimit (twin did not prove false)")
                else:
                    k = fn_of_line(ln)
                    if k:
                        failed_clauses.setdefault((k[:-5] if k.endswith("__vac") else k, "__vacuity"), []).append("rlimit (twin did not prove false)")
                continue
            rlimit.append(d.get("rendered", msg)); continue
        verification_msgs = ("postcondition not satisfied", "precondition not satisfied", "assertion failed",
                             "possible arithmetic underflow/overflow", "possible division by zero", "invariant not satisfied",
                             "recommendation not met", "loop invariant", "decreases not satisfied", "unreachable",
                             "possible bit shift underflow/overflow", "index out of bounds", "slice", "cannot show",
                             "failed this", "might not be allowed", "function body check")
        is_verif = any(v in msg for v in verification_msgs)
        if not is_verif:
            prim = [sp for sp in spans if sp.get("is_primary")] or spans
            k = None
            for sp in prim:
                k = fn_of_line(sp["line_start"])
                if k:
                    break
            if k and not k.endswith("__vac"):
                hard_fns.setdefault(k, d.get("rendered", msg)[:600])
            hard.append(d.get("rendered", msg)); continue
        attributed = False
        if msg.startswith("postcondition not satisfied"):
            for sp in spans:
                if sp.get("label") == "failed this postcondition":
                    ln = sp["line_start"]
                    if ln in A.clause_at:
                        k, lab, _ = A.clause_at[ln]
                        failed_clauses.setdefault((k, lab), []).append(d.get("rendered", msg)); attributed = True
                    elif ln >= A.theorem_start:
                        theorem_fail.setdefault(theorem_at(A, ln), []).append(d.get("rendered", msg)); attributed = True
                    else:
                        # a trait-level (prelude) postcondition failing on an extracted impl method
                        for sp2 in spans:
                            if sp2 is not sp:
                                k = fn_of_line(sp2["line_start"])
                                if k:
                                    lab = "trait:" + re.sub(r"\s+", " ", A.lines[ln - 1].strip())[:120]
                                    failed_clauses.setdefault((k, lab), []).append(d.get("rendered", msg)); attributed = True; break
        if not attributed:
            prim = [sp for sp in spans if sp.get("is_primary")] or spans
            for sp in prim:
                ln = sp["line_start"]
                if ln >= A.theorem_start:
                    theorem_fail.setdefault(theorem_at(A, ln), []).append(d.get("rendered", msg)); attributed = True; break
                k = fn_of_line(ln)
                if k:
                    failed_fns.setdefault(k, []).append(d.get("rendered", msg)); attributed = True
                    if is_panic_class(A, msg, spans):
                        panic_fns.setdefault(k, []).append(d.get("rendered", msg))
                    break
                if ln < A.extracted_start and sp.get("file_name", "").endswith(".rs") and "/gen/" in sp.get("file_name", ""):
                    # a lemma of the spec / prelude section
                    theorem_fail.setdefault(theorem_at(A, ln), []).append(d.get("rendered", msg)); attributed = True; break
        if not attributed:
            hard.append(d.get("rendered", msg))
    A.hard_fns = hard_fns
    A.panic_fns = panic_fns
    return failed_clauses, failed_fns, theorem_fail, hard, rlimit


# preconditions on EXTRACTED functions that guard a panic in their body (unreachable!(), unchecked indexing, unwrap)
# (`derive_ok` - key derivation does not exhaust its 256 counters - is a negligible-probability exclusion stated at fixed tape offsets, not a
#  panic guard in this sense: a change that merely moves the offsets must not read as "may panic")
PANIC_REQ = {"nocustom", "len", "plain", "label", "keylen"}


def is_panic_class(A, msg, spans):
    """does this body failure say 'the executable code may panic here' (as opposed to: a proof step / a value precondition failed)?"""
    if any(v in msg for v in ("possible arithmetic underflow/overflow", "possible division by zero", "possible bit shift underflow/overflow",
                              "index out of bounds", "unreachable", "slice")):
        return True
    if msg.startswith("precondition not satisfied"):
        for sp in spans:
            if sp.get("label") == "failed precondition":
                ln = sp["line_start"]
                if "/gen/" not in sp.get("file_name", ""):
                    return False    # a precondition inside vstd (operator / iterator spec plumbing), not a panic condition of the code
                if ln in A.clause_at:
                    return A.clause_at[ln][1] in PANIC_REQ
                if ln < A.spec_start:
                    # a prelude shim: exec functions carry the library's panic conditions as preconditions, proof functions do not
                    for q in range(ln - 1, max(ln - 40, 0), -1):
                        mm = re.match(r"^\s*(pub\s+)?(broadcast\s+)?(proof\s+|spec\s+)?fn\s+\w+", A.lines[q - 1])
                        if mm:
                            return mm.group(3) is None
                    return True
                return False
        return True
    return False


def theorem_at(A, ln):
    """name of the fn / proof fn in the theorem section containing line ln"""
    name = "?"
    for q in range(0, min(ln, len(A.lines))):
        m = re.match(r"^\s*(pub\s+)?(broadcast\s+)?(proof\s+|exec\s+|spec\s+)?fn\s+(\w+)", A.lines[q])
        if m:
            name = m.group(4)
    return name


def fn_times(res):
    out = {}
    try:
        for m in res["json"]["times-ms"]["smt"]["smt-run-module-times"]:
            for f in m.get("function-breakdown", []):
                out[f["function"]] = {"ms": f.get("time-micros", 0) / 1000.0, "rlimit": f.get("rlimit", 0), "success": f.get("success")}
    except Exception:
        pass
    return out


def scan_assumptions(A):
    """count assume / admit / external_body / assume_specification outside the prelude section"""
    text = "\n".join(A.lines)
    a = text.find("// ===================================================================== SPEC")
    b = text.find("// ===================================================================== EXTRACTED")
    prelude, rest = text[:a], text[a:]
    pat = re.compile(r"\b(admit\s*\(|assume\s*\(|external_body|assume_specification|external_fn_specification|#\[verifier::external\])")
    pre = len(pat.findall(prelude))
    found = []
    for m in pat.finditer(rest):
        ln = text[:a].count("\n") + rest[:m.start()].count("\n") + 1
        eol = rest.find("\n", m.start())
        if "/*R12*/" in rest[m.start():eol] or "/*R10:" in rest[m.start():eol] or "/*REFUSED" in rest[m.start():eol] or "/*DECLARED" in rest[m.start():eol]:
            continue   # generated field-wise Clone impls (rule R12) / refused bodies / `assume_external` of a contract file: reported separately
        found.append((ln, m.group(1)))
    return pre, found


def write_file(A, name):
    os.makedirs(GEN, exist_ok=True)
    p = os.path.join(GEN, name)
    with open(p, "w") as f:
        f.write("\n".join(A.lines) + "\n")
    return p
