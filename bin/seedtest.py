#!/usr/bin/env python3
"""Run the checks against the kept seeded changes (seeded/<id>/patch.diff or a directory given on the command line).
Each patch is applied to /repo (git apply), the listed checks are run, and the tree is restored (git checkout) straight afterwards.
usage: bin/seedtest.py <dir-with-patch.diff-and-meta.json> [more dirs ...] [--props C01,C02]"""
import json, os, subprocess, sys, time
V = os.path.dirname(os.path.dirname(os.path.abspath(__file__)))
REPO = "/repo"
args = sys.argv[1:]
props = None
if "--props" in args:
    i = args.index("--props"); props = args[i + 1].split(","); del args[i:i + 2]
assert subprocess.run(["git", "-C", REPO, "status", "--porcelain"], capture_output=True, text=True).stdout.strip() == "", "/repo not clean"
out = []
for d in args:
    meta = json.load(open(os.path.join(d, "meta.json"))) if os.path.exists(os.path.join(d, "meta.json")) else {}
    target = meta.get("property") or os.path.basename(d.rstrip("/"))
    target = target.split()[0].strip(":")
    todo = props or [target]
    t0 = time.time()
    res = {}
    try:
        p = subprocess.run(["git", "-C", REPO, "apply", os.path.abspath(os.path.join(d, "patch.diff"))], capture_output=True, text=True)
        if p.returncode != 0:
            print("PATCH DOES NOT APPLY", d, p.stderr[:300]); continue
        for pid in todo:
            q = subprocess.run([os.path.join(V, "bin", "check"), pid], capture_output=True, text=True, cwd=V)
            lines = [l for l in q.stdout.strip().split("\n") if l.strip()]
            res[pid] = (q.returncode, lines[-6:])
    finally:
        subprocess.run(["git", "-C", REPO, "checkout", "--", "."])
        subprocess.run(["git", "-C", REPO, "clean", "-fdq", "src"])
    print("==", d, "target", target, "%.0fs" % (time.time() - t0), flush=True)
    for pid, (rc, lines) in res.items():
        print("  ", pid, "rc=%d" % rc)
        for l in lines: print("      ", l[:400])
    out.append({"dir": d, "target": target, "results": {k: {"rc": v[0], "lines": v[1]} for k, v in res.items()}})
json.dump(out, open(os.path.join(V, "gen", "seedtest.json"), "w"), indent=1)
subprocess.run(["git", "-C", V, "checkout", "--", "evidence"])
for f in os.listdir(os.path.join(V, "replays")):
    os.remove(os.path.join(V, "replays", f))
