#!/usr/bin/env python3
"""(re)generate MANIFEST.json from bin/vxprops.py and properties.jsonl"""
import json, os, sys
sys.path.insert(0, os.path.dirname(os.path.abspath(__file__)))
import vxprops
V = os.path.dirname(os.path.dirname(os.path.abspath(__file__)))
props = [json.loads(l) for l in open(os.path.join(V, "properties.jsonl"))]
checks = []
na = []
for p in props:
    pid = p["id"]
    if pid in vxprops.PROPS:
        P = vxprops.PROPS[pid]
        checks.append({
            "property_id": pid,
            "quick_cmd": f"bin/check {pid} --tier quick",
            "thorough_cmd": f"bin/check {pid} --tier thorough",
            "evidence_file": f"/verif/evidence/{pid}.json",
            "replay_cmd_template": "bin/check replay {path}",
            "engine": "verus+kani",
            "level_claimed": {"category": "proof", "text": P.get("level_text", P.get("explanation", "")), "design_ref": "DESIGN.md section 4, " + pid},
            "level_note": " | ".join(P.get("assumptions", []) + P.get("hypotheses", []))[:4000],
            "technique": P.get("technique", "contract-based deductive verification: Verus contracts on mechanically extracted real functions (+ Kani on real leaf/group code)"),
        })
    else:
        na.append({"property_id": pid, "reason": vxprops.NOT_APPLICABLE.get(pid, "check not built yet (build in progress, see DESIGN.md section 9)")})
m = {
    "version": 1,
    "setup_cmd": "bin/setup",
    "hooks": {"guard": "opaque_ke_verif", "enable": "none needed: Verus reads /repo/src through the extractor; Kani and the replay crate build /repo unmodified (curve25519 feature enabled) by path",
              "baseline_off_cmd": "cd /repo && cargo test --workspace --no-fail-fast --offline", "source_commits": vxprops.HOOK_COMMITS, "add_only": True},
    "engines": [
        {"name": "verus", "path": "/verif/bin/vxlib.py", "serves_properties": sorted(vxprops.PROPS), "kind_free_text": "deductive verifier (Verus 0.2026.09.13 + Z3) on functions extracted from /repo/src on every run"},
        {"name": "kani", "path": "/verif/kani", "serves_properties": sorted(k for k, v in vxprops.PROPS.items() if any(a.get("kani") for a in v["alternatives"])), "kind_free_text": "Kani 0.68 + CBMC on the real leaf modules and KeGroup impls (loop-free full-domain harnesses; bounded ones labelled)"},
        {"name": "replay", "path": "/verif/replay", "serves_properties": sorted(vxprops.PROPS), "kind_free_text": "concrete execution of the real crate (20 suites) for witness search and conformance sampling of assumed contracts; never counted as proof"},
    ],
    "checks": checks,
    "not_applicable": na,
    "notes": "exit 2 (UNDECIDED) is used for extraction refusals, lost anchors, type errors in generated text, rlimit and vacuity problems; it is never reported as a violation. Known findings: /verif/known_findings.json (seven `fixed` entries D1-D6, each repaired in /repo by one `fix:` commit; no `known` entry, so no KNOWN-FINDING line is printed; the probe c10serde behind D6 still runs on every C10 run). Seeded changes used to test the checks: /verif/seeded (100 + MATRIX.md), DESIGN.md section 12.",
}
json.dump(m, open(os.path.join(V, "MANIFEST.json"), "w"), indent=1)
print("checks:", [c["property_id"] for c in checks], "n/a:", len(na))
