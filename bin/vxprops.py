"""Registry: which obligations decide which property (DESIGN.md section 4).

Each property has one or more ALTERNATIVES (a property enforced redundantly by the code holds when ANY alternative is fully
discharged).  An alternative lists labelled contract clauses on real functions, theorem harnesses / lemmas of verus/theorems.rs,
Kani harnesses, and optionally `body_of` (panic-freedom obligations inside function bodies).
('fn', '*') = every labelled clause of fn except the alternative's `exclude` labels.
"""
S = "serialization::"; GE = "group_ec::G::"; G = "group::"; K = "keypair::"; T = "tripledh::"; O = "opaque::"; M = "messages::"; E = "envelope::"; ER = "errors::"

# labels that state a REJECTION / error behaviour (not needed for "honest runs succeed" and value properties)
SOUND = {"sound", "sound_env", "sound_mac", "errkind", "strict", "nonid", "ids_err", "ctx_err", "mode_err", "ksf_err", "pw_len", "len_err",
         "err_S", "err_pk", "err_dh", "reflect", "nocustom", "kind", "err", "de_err", "pk_err", "ok_only", "atleast", "exact"}

ALL_FNS = [
    ER + "InternalError::into_custom", ER + "ProtocolError::into_custom", ER + "check_slice_size", ER + "check_slice_size_atleast",
    S + "Input::from", S + "Input::from_owned", S + "Input::from_label", S + "Input::iter", S + "Input::to_array_2", S + "Input::to_array_3",
    # the two generic chunk loops (blanket impls), verified against the prelude's iterator model
    S + "T::chain_iter", S + "T::update_iter",
    "ksf::Identity::hash", "ksf::Argon2::hash", G + "i2osp_2", G + "KeGroup::derive_auth_keypair",
    GE + "serialize_pk", GE + "deserialize_pk", GE + "hash_to_scalar", GE + "public_key", GE + "is_zero_scalar", GE + "diffie_hellman", GE + "serialize_sk", GE + "deserialize_sk", GE + "derive_auth_keypair",
    K + "KeyPair::public", K + "KeyPair::private", K + "KeyPair::from_private_key", K + "KeyPair::from_private_key_slice", K + "KeyPair::generate_random",
    K + "PrivateKey::diffie_hellman", K + "PrivateKey::public_key", K + "PrivateKey::serialize", K + "PrivateKey::deserialize", K + "PublicKey::deserialize", K + "PublicKey::serialize",
    K + "PrivateKey::deserialize[serde]", K + "PrivateKey::serialize[serde]", K + "PublicKey::deserialize[serde]", K + "PublicKey::serialize[serde]",
    M + "deserialize_blinded_element", M + "deserialize_evaluation_element",
    T + "generate_nonce", T + "hkdf_expand_label_extracted", T + "hkdf_expand_label", T + "derive_secrets", T + "derive_3dh_keys",
    T + "TripleDh::generate_ke1", T + "TripleDh::generate_ke2", T + "TripleDh::generate_ke3", T + "TripleDh::finish_ke",
    T + "Ke1State::deserialize", T + "Ke1State::serialize", T + "Ke1Message::deserialize", T + "Ke1Message::serialize", T + "Ke2State::deserialize", T + "Ke2State::serialize",
    T + "Ke2Message::deserialize", T + "Ke2Message::serialize", T + "Ke2Message::to_bytes_without_mac", T + "Ke3Message::deserialize", T + "Ke3Message::serialize",
    E + "InnerEnvelopeMode::try_from", E + "construct_aad", E + "Envelope::seal_raw", E + "Envelope::open_raw", E + "build_inner_envelope_internal", E + "recover_keys_internal",
    E + "Envelope::seal", E + "Envelope::open", E + "Envelope::dummy", E + "Envelope::hmac_key_size", E + "Envelope::len", E + "Envelope::serialize", E + "Envelope::deserialize",
    M + "RegistrationRequest::serialize", M + "RegistrationRequest::deserialize", M + "RegistrationResponse::serialize", M + "RegistrationResponse::deserialize",
    M + "RegistrationUpload::serialize", M + "RegistrationUpload::deserialize", M + "RegistrationUpload::dummy", M + "CredentialRequest::serialize", M + "CredentialRequest::serialize_iter",
    M + "CredentialRequest::deserialize", M + "CredentialResponse::serialize", M + "CredentialResponse::serialize_without_ke", M + "CredentialResponse::deserialize",
    M + "CredentialFinalization::serialize", M + "CredentialFinalization::deserialize",
    O + "MaskedResponse::serialize", O + "MaskedResponse::deserialize", O + "MaskedResponse::iter", O + "bytestrings_from_identifiers", O + "blind", O + "get_password_derived_key",
    O + "oprf_key_from_seed", O + "mask_response", O + "unmask_response", O + "ServerSetup::new_with_key", O + "ServerSetup::new", O + "ServerSetup::serialize", O + "ServerSetup::deserialize",
    O + "ServerSetup::keypair", O + "ClientRegistration::serialize", O + "ClientRegistration::deserialize", O + "ClientRegistration::start", O + "ClientRegistration::finish",
    O + "ServerRegistration::serialize", O + "ServerRegistration::deserialize", O + "ServerRegistration::start", O + "ServerRegistration::finish", O + "ServerRegistration::dummy",
    O + "ClientLogin::serialize", O + "ClientLogin::deserialize", O + "ClientLogin::start", O + "ClientLogin::finish", O + "ServerLogin::serialize", O + "ServerLogin::deserialize",
    O + "ServerLogin::start", O + "ServerLogin::finish", O + "ClientRegistrationFinishParameters::new", O + "ClientLoginFinishParameters::new",
]
DECODERS = [f for f in ALL_FNS if f.endswith("::deserialize") or f.endswith("::deserialize[serde]")]
ENCODERS = [f for f in ALL_FNS if f.endswith("::serialize") or f.endswith("::serialize[serde]")]


def star(fns):
    return [(f, "*") for f in fns]


# everything except the strictness (which encodings are refused: C10) of the NIST group's two key decoders
ALL_BUT_EC_STRICT = star([f for f in ALL_FNS if f not in (GE + "deserialize_pk", GE + "deserialize_sk")]) + [(GE + "deserialize_pk", "valid"), (GE + "deserialize_sk", "valid"), (GE + "deserialize_sk", "nonzero")]


VACUITY_THEOREMS = {
    "thm_c01_honest_run", "thm_c02_reject_env", "thm_c02_reject_mac", "thm_c02_real_env", "thm_c02_real_mac", "thm_transcript_agreement", "thm_c03_exact", "thm_c03_reload",
    "thm_c04_mac_only", "thm_c04_fields", "thm_c05_login_binding", "thm_c05_envelope_binding", "thm_c07_client_matched", "thm_c07_server_matched", "thm_c07_distinct_sessions",
    "thm_c08_fake_vs_real", "thm_c13_server_registration", "thm_c13_client_registration", "thm_c13_client_login", "thm_c13_server_setup", "thm_c14_blind_independent",
    "thm_c15_default_equiv", "thm_c15_ksf_bound", "thm_c16_separated", "thm_c16_label_separation", "thm_c17_server_login_deterministic", "thm_c18_transparent",
}
KANI_BOUNDS = {
    "input_from_iter_bounded": "payload <= 6 bytes (unwind 10); cross-check of rule R5 (iterator order == concatenation) on the real iterator, the function itself is proved by Verus",
    "input_owned_iter_bounded": "payload <= 6 bytes (unwind 10); cross-check of rule R5, the function itself is proved by Verus",
    "input_label_arrays_bounded": "label pieces <= 6 bytes (unwind 10); cross-check of rule R5, the function itself is proved by Verus",
    "x25519_sk_decode_length": "slices of 0..=40 bytes other than 32 (the decoders start with a slice-to-array conversion)",
    "ristretto_decode_length": "slices of 0..=40 bytes other than 32; decompress stubbed by its contract",
    "chain_iter_order_bounded": "<= 3 chunks of <= 2 bytes (unwind 5): UpdateExt::chain_iter / MacExt::update_iter feed chunks in iteration order",
}

IDEAL = "idealisation hypotheses are explicit `requires` of the theorems, never axioms: "
A_NEGL = "negligible-probability exclusions (preconditions): per-credential OPRF key != 1 (else the reflected-value check fires), DeriveDiffieHellmanKeyPair does not exhaust its 256 counters, the KSF succeeds, the OPRF accepts the password"
A_PRELUDE = "assumed dependency contracts (verus/prelude.rs): HKDF/HMAC/Hash are functions with the stated output lengths; Mac::verify accepts exactly the full tag; voprf blind/finalize/blind_evaluate compute RFC 9497 mode 0; group laws (smul commutes, r*r^-1 cancels, DH symmetry); codecs round-trip on library-produced values"

PROPS = {}

PROPS["C01"] = {
    "alternatives": [{
        "name": "honest-run",
        "clauses": [],
         "supporting": ALL_BUT_EC_STRICT, "exclude": SOUND,
         "kani": {"quick": [("api", "x25519_pk_accepts_valid")], "thorough": []},
         "theorems": ["thm_c01_honest_run", "lemma_oprf_unblind", "lemma_oprf_output_blind_independent", "lemma_unmask", "lemma_xor_involution"],
    }],
    "witness": "c01",
    "explanation": "thm_c01_honest_run composes the eight real API steps (production cfg branch of blind(), abstract suite lengths and primitives = all 20 suites at once) for arbitrary password / credential id / identities / context / KSF / tapes and proves: every step Ok, equal session keys, login export key == registration export key, reported server key == setup key. Every value/completeness clause of every function under contract is required; rejection-only clauses are not (C01 still holds without them).",
    "assumptions": [A_NEGL, A_PRELUDE, "lengths: password, identities, context <= 65535 bytes (part of the statement)"],
}

PROPS["C02"] = {
    "alternatives": [
        {"name": "envelope-gate",
         "clauses": [(O + "ClientLogin::finish", "rp"), (O + "ClientLogin::finish", "sound_env"), (O + "ClientLogin::finish", "errkind"), (O + "ClientLogin::finish", "reflect"), (E + "Envelope::open", "sound"), (E + "Envelope::open", "errkind"), (E + "Envelope::open", "ids_err"), (E + "Envelope::open", "nocustom"), (E + "Envelope::open_raw", "sound"), (E + "Envelope::open_raw", "errkind")],
         "supporting": [(O + "get_password_derived_key", "*"), (O + "unmask_response", "*"), (E + "Envelope::open", "rfc"), (E + "Envelope::open_raw", "*"), (E + "recover_keys_internal", "*"), (O + "bytestrings_from_identifiers", "*"), (E + "construct_aad", "*"), (E + "Envelope::deserialize", "*"), (K + "PublicKey::deserialize", "*"), (O + "blind", "*")],
         "theorems": ["lemma_c02_rp_differs", "thm_c02_reject_env", "thm_c02_real_env", "lemma_frame_split"]},
        {"name": "server-mac-gate",
         "clauses": [(O + "ClientLogin::finish", "rp"), (O + "ClientLogin::finish", "sound_mac"), (O + "ClientLogin::finish", "errkind"), (O + "ClientLogin::finish", "reflect"), (T + "TripleDh::generate_ke3", "sound"), (T + "TripleDh::generate_ke3", "errkind")],
         "supporting": [(T + "TripleDh::generate_ke3", "ctx_err"), (O + "get_password_derived_key", "*"), (O + "unmask_response", "*"), (E + "recover_keys_internal", "*"), (T + "TripleDh::generate_ke3", "*"), (T + "derive_3dh_keys", "*"), (T + "hkdf_expand_label_extracted", "*"), (T + "hkdf_expand_label", "*"), (T + "derive_secrets", "*"), (O + "blind", "*")],
         "theorems": ["lemma_c02_rp_differs", "thm_c02_reject_mac", "thm_c02_real_mac", "lemma_frame_split"]},
    ],
    "witness": "c02",
    "explanation": "Proved: (a) the randomized password is an injective function of the password (length-prefixed Finalize input, Hash/Extract collision-freedom as hypotheses) so prefixes, extensions, empty-vs-non-empty, last-byte changes all give a different key; (b) the real ClientLogin::finish accepts only if the envelope gate AND the server-MAC gate hold for the key derived from the LOGIN password; (c) when a gate is false the result is Err(InvalidLoginError) and, by the result type, no key material. The property holds if either gate is enforced (alternatives).",
    "assumptions": [A_NEGL, A_PRELUDE],
    "hypotheses": [IDEAL + "cf_hash, cf_extract (rp injective); h_env_fresh / h_mac_fresh: a tag valid under a key derived from a DIFFERENT randomized password does not occur in XOR-garbled data / the honest server MAC does not verify under foreign key material (random-oracle argument, stated as named assumption)"],
}

PROPS["C03"] = {
    "alternatives": [{
        "name": "mac-gate",
        "clauses": [(S + "T::chain_iter", "*"), (S + "T::update_iter", "*"), (T + "TripleDh::finish_ke", "*"), (O + "ServerLogin::finish", "*"), (T + "Ke3Message::deserialize", "*"), (M + "CredentialFinalization::deserialize", "*"), (ER + "check_slice_size", "*"), (O + "ServerLogin::start", "state")],
         "supporting": [(T + "Ke2State::deserialize", "*"), (T + "Ke2State::serialize", "*"), (O + "ServerLogin::deserialize", "*"), (O + "ServerLogin::serialize", "*"), (T + "TripleDh::generate_ke2", "rfc")],
         "theorems": ["thm_c03_exact", "thm_c03_expected_tag", "thm_c03_reload"],
    }],
    "witness": "c03",
    "explanation": "ServerLogin::finish(st, m) is Ok <=> m == HMAC(st.km3, st.hashed_transcript), proved for all states (real or fake record) and all byte strings m on the real finish_ke / ServerLogin::finish / decoders; on Err the error is InvalidLoginError and no key is returned; the expected tag of a state produced by ServerLogin::start is the RFC 9807 client MAC of that session's transcript; a reloaded state expects the same tag.",
    "assumptions": ["hmac::Mac::verify accepts exactly the full-length tag HMAC(key, msg) (prelude contract; constant-time-ness not modelled)",
                    "that tags of other sessions are different byte strings needs collision-freedom of HMAC/Hash (C07 states it); the exact characterisation is what is proved here"],
}

PROPS["C04"] = {
    "alternatives": [{
        "name": "server-mac-over-transcript",
        "clauses": [(S + "T::chain_iter", "*"), (S + "T::update_iter", "*"), (O + "ClientLogin::finish", "reflect"), (O + "ClientLogin::finish", "sound_mac"), (O + "ClientLogin::finish", "errkind"), (O + "ClientLogin::finish", "rp"), (T + "TripleDh::generate_ke3", "sound"), (T + "TripleDh::generate_ke3", "errkind"), (M + "CredentialResponse::deserialize", "*"), (M + "CredentialResponse::serialize_without_ke", "*"), (M + "CredentialRequest::serialize_iter", "*"), (T + "Ke2Message::to_bytes_without_mac", "*"), (T + "Ke1Message::serialize", "*"), (O + "MaskedResponse::iter", "*"), (T + "Ke2Message::deserialize", "*"), (O + "MaskedResponse::deserialize", "*")],
         "supporting": [(T + "TripleDh::generate_ke3", "ctx_err"), (T + "TripleDh::generate_ke3", "*"), (T + "derive_3dh_keys", "*"), (T + "hkdf_expand_label_extracted", "*"), (T + "hkdf_expand_label", "*"), (T + "derive_secrets", "*")],
         "theorems": ["thm_c04_mac_only", "thm_c04_fields", "thm_transcript_agreement", "lemma_preamble_injective", "lemma_frame_split", "lemma_fixed_split"],
        "kani": {"quick": [("api", "x25519_pk_canonical")], "thorough": []},
        "replay": ["c04"],
    }],
    "witness": "c04",
    "explanation": "The real finish step accepts only if the MAC field equals the RFC server MAC over the client's own transcript (request bytes, OPRF evaluation, masking nonce, masked credentials, server nonce, server ephemeral key, context, identities). thm_c04_mac_only: changing only the MAC is rejected (exact). thm_c04_fields: with the MAC unchanged, acceptance forces every transcript field to equal the server's and the request to be this client's (every single-byte substitution at every offset, every splice leaving one of the two parts genuine).",
    "assumptions": [A_PRELUDE],
    "hypotheses": [IDEAL + "cf_hash, cf_hmac. Responses in which fields AND MAC are replaced consistently need MAC unforgeability (statement about what an adversary can compute): not decided here"],
}

PROPS["C05"] = {
    "alternatives": [{
        "name": "framed-binding",
        "clauses": [(S + "T::chain_iter", "*"), (S + "T::update_iter", "*"), (S + "Input::from", "*"), (S + "Input::from_owned", "*"), (S + "Input::iter", "*"), (O + "bytestrings_from_identifiers", "*"), (E + "construct_aad", "*"), (E + "Envelope::open", "sound"), (E + "Envelope::open_raw", "sound"), (T + "TripleDh::generate_ke2", "ctx_err"), (T + "TripleDh::generate_ke3", "sound"), (T + "TripleDh::generate_ke3", "ctx_err"), (O + "oprf_key_from_seed", "*"), (O + "ServerRegistration::start", "eval"), (O + "ServerLogin::start", "eval"), (O + "ClientLogin::finish", "sound_env"), (O + "ClientLogin::finish", "sound_mac")],
         "supporting": [(E + "Envelope::seal", "rfc"), (E + "Envelope::seal", "ok_iff"), (E + "Envelope::seal_raw", "*"), (E + "Envelope::open", "rfc"), (T + "TripleDh::generate_ke2", "rfc"), (O + "ServerLogin::start", "ke2"), (O + "ServerLogin::start", "mask"), (O + "ClientRegistration::finish", "rfc")],
         "theorems": ["thm_c05_login_binding", "thm_c05_envelope_binding", "thm_transcript_agreement", "lemma_preamble_injective", "lemma_cleartext_injective", "lemma_frame_split", "lemma_fixed_split", "lemma_i2osp2_inj", "lemma_i2osp2"],
        "kani": {"quick": [("leaf", "i2osp_u2_exact"), ("leaf", "i2osp_u1_exact")], "thorough": [("leaf", "input_from_iter_bounded"), ("leaf", "input_owned_iter_bounded"), ("leaf", "input_label_arrays_bounded")]},
    }],
    "witness": "c05",
    "explanation": "Identities default to the serialized static keys (None == explicit public-key spelling, byte for byte); identities and context enter the envelope MAC and the 3DH transcript 2-byte-length-prefixed on both sides; the framing is injective (lemmas over ALL byte strings incl. the 255/256 and 65535/65536 boundaries; I2OSP itself proved by Kani over all usize). Acceptance of a server MAC forces equal context and effective identities; passing the envelope gate forces the identities and server key sealed at registration; the OPRF key is Expand(seed, cred_id || 'OprfKey') on both registration and login.",
    "assumptions": [A_PRELUDE, "credential-identifier mismatch behaves like a wrong password (different OPRF key): relies on C02's named assumption"],
    "hypotheses": [IDEAL + "cf_hash, cf_hmac"],
}

PROPS["C06"] = {
    "alternatives": [{
        "name": "envelope-binds-server-key",
        "clauses": [(S + "T::chain_iter", "*"), (S + "T::update_iter", "*"), (O + "ServerRegistration::start", "pk"), (O + "ClientRegistration::finish", "pk_out"), (O + "ClientLogin::finish", "pk_out"), (O + "ClientLogin::finish", "sound_env"), (E + "Envelope::open", "sound"), (E + "Envelope::open_raw", "sound"), (O + "unmask_response", "*")],
         "supporting": [(O + "ServerSetup::new", "*"), (O + "ServerSetup::new_with_key", "*"), (K + "KeyPair::generate_random", "*"), (K + "KeyPair::public", "*"), (K + "KeyPair::private", "*"), (O + "ClientRegistration::finish", "rfc"), (O + "ServerLogin::start", "mask"), (E + "Envelope::seal", "rfc"), (O + "mask_response", "*"), (K + "PrivateKey::public_key", "*")],
         "theorems": ["thm_c05_envelope_binding", "thm_c01_honest_run", "lemma_cleartext_injective", "lemma_unmask"],
    }],
    "witness": "c06",
    "explanation": "The key reported at registration is the setup's public key; login masks sk.public_key() (not a stored copy); the client returns the unmasked key; passing the envelope gate on a record sealed under spk_reg forces the live key to equal spk_reg (HMAC collision-freedom + injective CleartextCredentials). Single mechanism: the envelope MAC.",
    "assumptions": [A_PRELUDE, "KeGroup::deserialize_pk is canonical (trait-level contract; discharged per group by Kani, see C10/C11)"],
    "hypotheses": [IDEAL + "cf_hmac"],
}

PROPS["C07"] = {
    "alternatives": [{
        "name": "matched-conversations",
        # (public keys enter the transcript re-encoded: a decoder that maps two spellings to one key lets an altered message complete on both sides)
        "clauses": [(S + "T::chain_iter", "*"), (S + "T::update_iter", "*"), (O + "ClientLogin::finish", "sound_mac"), (O + "ServerLogin::finish", "*"), (T + "TripleDh::finish_ke", "*"), (T + "TripleDh::generate_ke3", "sound"), (O + "ServerLogin::start", "state"),
                    (GE + "deserialize_pk", "canonical"), (K + "PublicKey::deserialize", "*"), (T + "Ke1Message::deserialize", "*"), (T + "Ke2Message::deserialize", "*")],
        "kani": {"quick": [("api", "x25519_pk_canonical")], "thorough": []},
         "supporting": [(O + "ClientLogin::finish", "rfc"), (O + "ServerLogin::start", "ke2"), (O + "ServerLogin::start", "tape"), (T + "TripleDh::generate_ke1", "*"), (T + "TripleDh::generate_ke2", "rfc"), (T + "TripleDh::generate_ke2", "tape"), (T + "TripleDh::generate_ke3", "rfc"), (O + "ClientLogin::start", "*"), (T + "generate_nonce", "*"), (K + "KeyPair::generate_random", "*")],
         "theorems": ["thm_c07_client_matched", "thm_c07_server_matched", "thm_c07_distinct_sessions", "thm_transcript_agreement", "lemma_km2_injective", "lemma_preamble_injective", "thm_c03_exact"],
    }],
    "witness": "c07",
    "explanation": "Every API step is a function of its arguments and the caller's tape (no statics, no interior state), so a history over a shared server is a set of calls and the routing adversary only chooses which honestly produced message goes to which call. Proved for ARBITRARY pairs of sessions: client acceptance of a MAC some server session computed => same request, context, identities, response fields, same key-schedule input and session key; server acceptance of a finalization some client computed => that client verified this very server MAC over this very transcript; sessions with different nonces / ephemeral keys / requests have different session keys; nonces and ephemeral keys are fresh tape segments per start call.",
    "assumptions": [A_PRELUDE, "reduction from 'all interleavings' to pairwise statements is by statelessness (argument, DESIGN.md C07)", "messages FORGED by the adversary (not produced by any honest session) need MAC unforgeability: not decided", "probability of nonce collision on independent tapes: not decided"],
    "hypotheses": [IDEAL + "cf_hash, cf_hmac, cf_expand"],
}

PROPS["C08"] = {
    "alternatives": [{
        "name": "same-path-after-substitution",
        "clauses": [(O + "ServerLogin::start", "ok"), (O + "ServerLogin::start", "ok_only"), (O + "ServerLogin::start", "eval"), (O + "ServerLogin::start", "state"), (O + "ServerLogin::start", "tape"), (M + "RegistrationUpload::dummy", "*"),
                    (O + "ServerSetup::new_with_key", "*"), (O + "ServerSetup::new", "*"), (K + "KeyPair::generate_random", "*"), (O + "ServerRegistration::dummy", "*"), (E + "Envelope::dummy", "*"), (O + "ClientLogin::finish", "errkind"), (T + "TripleDh::finish_ke", "sound"), (T + "TripleDh::finish_ke", "errkind"), (O + "ServerLogin::finish", "*")],
         "supporting": [(O + "ServerLogin::start", "mask"), (O + "ServerLogin::start", "ke2"), (O + "mask_response", "*"), (O + "oprf_key_from_seed", "*"), (O + "ClientLogin::finish", "sound_env"), (M + "CredentialResponse::serialize", "*")],
         "theorems": ["thm_c08_fake_vs_real", "thm_c02_real_env", "thm_c03_exact", "lemma_all_zero_concat"],
    }],
    "witness": "c08", "extra_generators": ["c09"],
    "explanation": "ServerLogin::start's postcondition for password_file == None is the SAME spec function as for Some(rec) with rec := (fake public key, masking key = next Nh tape bytes, all-zero envelope): same evaluation smul(request, OprfKey(seed, cred_id)) independent of record and static key, same types hence same lengths, masking nonce / server nonce / ephemeral key from consecutive disjoint tape segments; both calls succeed or fail together. Client side: a failing envelope gate yields InvalidLoginError (as for a wrong password); server side: C03.",
    "assumptions": [A_PRELUDE, "computational indistinguishability ('unpredictably') is not decidable by contracts; the deterministic content is what is proved", "the all-zero envelope under a random masking key does not pass the envelope gate: C02's named assumption"],
}

PROPS["C09"] = {
    "alternatives": [{
        "name": "rfc-oracle",
        # (strictness of the key decoders of the NIST group - which encodings are REFUSED - is C10, not RFC conformance of outputs)
        "clauses": ALL_BUT_EC_STRICT,
        "exclude": {"strict"},
        "theorems": ["lemma_i2osp1", "lemma_i2osp2", "lemma_preamble_flat", "thm_c03_expected_tag"],
        "kani": {"quick": [("leaf", "i2osp_u2_exact"), ("leaf", "i2osp_u1_exact")], "thorough": [("api", "x25519_derive_is_clamp")]},
        "replay": ["c09"],
    }],
    "witness": "c01",
    "explanation": "Every output of every step (six messages, password file, export key, session key, server and client states as witnesses of the random choices) is proved equal to the RFC 9807 / RFC 9497 formula of verus/spec_rfc.rs applied to the inputs and to the tape segments consumed, in the order consumed; labels and constants are extracted from the source every run. Oracle transcription is cross-checked against the RFC vectors shipped in the repo by the replay crate (testing).",
    "assumptions": [A_PRELUDE, "hkdf/hmac/sha2/voprf implement RFC 5869 / 2104 / 9497 (assumed; sampled against RFC vectors)", "Nseed = Nsk of the KE group (repo) where RFC 9807 fixes 32; per the property ('that suite's own lengths') not flagged"],
}

PROPS["C13"] = {
    "needs_serde_premise": True,
    "alternatives": [{
        "name": "native-roundtrip",
        "clauses": star(DECODERS + ENCODERS + [ER + "check_slice_size", ER + "check_slice_size_atleast", O + "MaskedResponse::deserialize"]), "exclude": {"strict"},
        "theorems": ["thm_c13_server_registration", "thm_c13_client_registration", "thm_c13_client_login", "thm_c13_server_setup", "thm_c03_reload"],
    }],
    "witness": "c13",
    "explanation": "For the five persistable states, deserialize(serialize(x)) is Ok and equal to x field by field (a dropped or reordered field fails); every later step is a function of the state VALUE (determinism, C17), so a reloaded state continues identically. Envelope.mode is not serialized: it is Internal for every envelope that reaches a password file (seal.rfc).",
    "assumptions": [A_PRELUDE, "serde: the four hand-written key impls are under contract (route through KG::deserialize_*/serialize_*); derived serde impls are generated code with no function body to put a contract on — assumed field-wise; exercised by the replay crate (bincode / JSON reload at every boundary) as testing"],
}

PROPS["C14"] = {
    "alternatives": [{
        "name": "oblivious-keyed",
        "clauses": [(O + "blind", "*"), (O + "ClientRegistration::start", "*"), (O + "ClientLogin::start", "ok_iff"), (O + "ClientLogin::start", "conf"), (O + "ServerRegistration::start", "eval"), (O + "ServerRegistration::start", "ok_iff"), (O + "ServerLogin::start", "eval"), (O + "oprf_key_from_seed", "*")],
         "supporting": [(O + "get_password_derived_key", "*"), (O + "ClientRegistration::finish", "rfc")],
         "theorems": ["thm_c14_blind_independent", "thm_c14_request_varies", "lemma_oprf_unblind", "lemma_oprf_output_blind_independent"],
    }],
    "witness": "c14",
    "explanation": "The production (cfg(not(test))) blind() calls voprf's blind with a scalar drawn from the caller's tape: request = smul(H2G(pw), scalar_of_tape(segment)); randomized password and masking key are independent of the blind (OPRF algebra); the evaluation is smul(request, OprfKey(seed, cred_id)) at registration and login, with no dependence on static key or password file; the key is DeriveKeyPair(Expand(seed, cred_id || 'OprfKey')).",
    "assumptions": [A_PRELUDE, "'unrelated results' for different seeds / credential ids / passwords beyond inequality is cryptographic"],
}

PROPS["C15"] = {
    "alternatives": [{
        "name": "ksf-selection-binding",
        "clauses": [(O + "get_password_derived_key", "ksf_err"), (O + "ClientRegistration::finish", "ksf_err"), (O + "ClientLogin::finish", "ksf_err"), ("ksf::Identity::hash", "*")],
         # the Argon2 adapter's exact salt / error kind is RFC conformance (C09), not this property: supporting here.  get_password_derived_key.rfc / ok also
         # state HOW the password enters the OPRF (C02 / C14 / C09): supporting here, decided on the real code by generator c15 when they fail
         "supporting": [(O + "get_password_derived_key", "*"), (O + "ClientRegistration::finish", "rfc"), (O + "ClientLogin::finish", "rp"), ("ksf::Argon2::hash", "*")],
         "theorems": ["thm_c15_default_equiv", "thm_c15_ksf_bound"],
    }],
    "witness": "c15",
    "explanation": "The hardened value is ksf_spec(params.ksf or the suite default, oprf_output), concatenated into Extract; both finish steps forward params.ksf; a KSF error is returned as Err(LibraryError(e)); Some(&default) == None; different stretching results give different randomized passwords. The contract pins the VALUE, so ksf(ksf(y)) or no call are caught; a redundant call whose result is discarded is unobservable.",
    "assumptions": [A_PRELUDE, "Ksf::hash is a function of (self, input); Default::default() is deterministic (rule R8 shim)", "Argon2 adapter: under contract against a shim of argon2::Argon2::hash_password_into (output = Argon2(params; OPRF output, 16 zero bytes of salt), error => KsfError); argon2 itself is assumed to be a function of (params, password, salt, length)"],
    "hypotheses": [IDEAL + "cf_extract (binding)"],
}

PROPS["C16"] = {
    "alternatives": [{
        "name": "export-key",
        "clauses": [],
         "supporting": [(O + "ServerSetup::new_with_key", "*"), (O + "ServerSetup::new", "*"), (O + "oprf_key_from_seed", "*"), (O + "get_password_derived_key", "*"), (O + "blind", "conf"), (O + "blind", "ok_iff"), (E + "Envelope::seal_raw", "*"), (E + "Envelope::open_raw", "export"), (E + "Envelope::seal", "rfc"), (E + "Envelope::seal", "tape"), (E + "Envelope::open", "rfc"), (O + "ClientRegistration::finish", "rfc"), (O + "ClientLogin::finish", "rfc")],
         "theorems": ["thm_c01_honest_run", "thm_c16_separated", "thm_c16_label_separation"],
    }],
    "witness": "c16",
    "explanation": "export_key == Expand(randomized_pwd, nonce || 'ExportKey', Nh) at seal and at open, hence equal for every login of one registration regardless of session randomness / context (thm_c01); a new registration draws a new nonce from a fresh tape segment => different key; separated from auth key and masking key by label. Every message field is proved to be a specific other term (client pk, masking key, nonce, tag, masked bytes, MACs).",
    "assumptions": [A_PRELUDE, "'no secret appears verbatim as a substring of a message' is probabilistic: not decided; mutants that put a secret into a message fail that field's clause"],
    "hypotheses": [IDEAL + "cf_expand"],
}

PROPS["C17"] = {
    "alternatives": [{
        "name": "functional-contracts",
        "clauses": [(O + "blind", "tape"), (O + "blind", "fresh"), (O + "ServerLogin::start", "tape"), (O + "ServerSetup::new", "tape"), (O + "ServerSetup::new_with_key", "tape"), (E + "Envelope::seal", "tape"), (O + "ClientRegistration::start", "tape"), (O + "ClientRegistration::finish", "tape"), (M + "RegistrationUpload::dummy", "tape"), (O + "ServerRegistration::dummy", "tape"), (T + "generate_nonce", "*"), (T + "TripleDh::generate_ke1", "tape"), (T + "TripleDh::generate_ke2", "tape"), (K + "KeyPair::generate_random", "tape")],
         "supporting": ALL_BUT_EC_STRICT, "exclude": SOUND,
         "theorems": ["thm_c17_server_login_deterministic", "thm_c17_disjoint_segments"],
    }],
    "witness": "c17",
    "explanation": "All postconditions are equalities with spec functions of (arguments, tape id, tape position): identical tapes give identical outputs and the prelude offers no other entropy source (a body calling OsRng/thread_rng would not resolve => undecided). Every random value (blind, envelope nonce, masking nonce, client/server nonces, ephemeral seeds, OPRF seed, key-pair seeds, fake masking key) IS a tape segment (or DeriveKeyPair / scalar_of_tape of one); segments are consecutive and disjoint and the position advances by the stated amounts. The production cfg branch of blind() is what is extracted.",
    "assumptions": [A_PRELUDE, "'never repeat on independent tapes' beyond being tape segments is probabilistic"],
}

PROPS["C18"] = {
    "alternatives": [{
        "name": "generic-secret-key",
        "clauses": [(O + "ServerLogin::start", "err_pk"), (O + "ServerLogin::start", "err_dh"), (O + "ServerLogin::start", "ok"), (O + "ServerLogin::start", "ok_only"), (O + "ServerSetup::new_with_key", "*"), (O + "ServerSetup::serialize", "*"), (O + "ServerSetup::deserialize", "*"), (O + "ServerSetup::keypair", "*"), (K + "KeyPair::from_private_key", "*"), (K + "KeyPair::from_private_key_slice", "*"), (T + "derive_3dh_keys", "err_S"), (T + "derive_3dh_keys", "ok"), (T + "TripleDh::generate_ke2", "err_S"), (T + "TripleDh::generate_ke2", "ok"), (ER + "InternalError::into_custom", "*"), (ER + "ProtocolError::into_custom", "*"), (K + "PrivateKey::diffie_hellman", "*"), (K + "PrivateKey::public_key", "*"), (K + "PrivateKey::serialize", "*"), (K + "PrivateKey::deserialize", "*")],
         "supporting": [(O + "ServerLogin::start", "*"), (T + "derive_3dh_keys", "*"), (T + "TripleDh::generate_ke2", "*"), (O + "ServerRegistration::start", "*")],
         "theorems": ["thm_c18_transparent"],
    }],
    "witness": "c18",
    "explanation": "The extracted code stays generic in S: SecretKey<KG>; ServerLogin::start's contract is stated over S's Result-valued spec operations: exactly one public_key and one diffie_hellman; on Err(e) the result is Err(LibraryError(e)) and — by the result type — no message or state; for S = PrivateKey the same contract specialises to KG::pk_of / KG::dh of the held scalar (substitution). into_custom's unreachable!() arms are unreachable (precondition proved at every call site).",
    "assumptions": [A_PRELUDE, "the external key's operations are functions; its clone denotes the same key (axiom_clone_is_identity)"],
}

C10_THMS = ["thm_c10_registration_request", "thm_c10_registration_response", "thm_c10_registration_upload", "thm_c10_credential_request", "thm_c10_credential_response",
            "thm_c10_credential_finalization", "thm_c10_server_registration", "thm_c10_server_login", "thm_c10_client_registration", "thm_c10_client_login", "thm_c10_server_setup", "thm_c10_private_key_slice", "thm_c10_public_key"]
VACUITY_THEOREMS |= set(C10_THMS) | {"thm_c13_server_setup_external"}

PROPS["C10"] = {
    "always_generators": ["c10serde"],
    "alternatives": [{
        "name": "strict-canonical",
        "clauses": star(DECODERS + ENCODERS + [ER + "check_slice_size", ER + "check_slice_size_atleast", O + "MaskedResponse::deserialize", O + "MaskedResponse::serialize",
                                               GE + "deserialize_pk", GE + "deserialize_sk", GE + "serialize_pk", GE + "serialize_sk", K + "KeyPair::from_private_key_slice"]),
        "theorems": C10_THMS + ["thm_c13_server_registration", "thm_c13_client_registration", "thm_c13_client_login", "thm_c13_server_setup", "thm_c03_reload"],
        "kani": {"quick": [("leaf", "check_slice_size_exact"), ("api", "x25519_sk_decode"), ("api", "x25519_pk_canonical"), ("api", "ristretto_sk_decode"),
                           ("api", "x25519_sk_decode_length"), ("api", "ristretto_decode_length")],
                 "thorough": []},
        "replay": ["c10"],
    }],
    "witness": "c10",
    "explanation": "For each of the eleven decoders a Verus harness decodes an ARBITRARY byte string with the real decoder and re-encodes with the real encoder: accepted bytes re-encode to themselves (one fixed suite-determined length, no trailing bytes, no alias encodings); plus encode-then-decode is the identity (C13 harnesses). Proved parametrically in the suite lengths. Canonical decoding of key-exchange keys is the KeGroup trait contract: Curve25519 proved by Kani over all 2^256 inputs, ristretto255 / NIST wrappers assumed of the dependency and sampled on all 256 tag bytes by the replay crate.",
    "assumptions": [A_PRELUDE, "KeGroup::deserialize_pk / deserialize_sk are canonical: proved for the NIST blanket impl (Verus: the re-encoding filters in the code, whatever elliptic-curve's decoders accept) and for Curve25519 (Kani over all 2^256 inputs); ristretto255 relies on dalek's canonical decompress / from_canonical_bytes (assumed, sampled)", "scalar decoding of the OPRF group is canonical for exact-length input (dependency contract, sampled)"],
}

PROPS["C11"] = {
    "needs_serde_premise": True,
    "alternatives": [{
        "name": "decoders-only",
        "clauses": star(DECODERS) + [(K + "PublicKey::deserialize", "*"), (K + "PrivateKey::deserialize", "*"), (K + "KeyPair::from_private_key_slice", "*"), (O + "unmask_response", "*"),
                                     (K + "PrivateKey::deserialize[serde]", "*"), (K + "PublicKey::deserialize[serde]", "*"), (M + "deserialize_blinded_element", "*"), (M + "deserialize_evaluation_element", "*"),
                                     (GE + "deserialize_pk", "valid"), (GE + "deserialize_sk", "valid"), (GE + "deserialize_sk", "nonzero"), (GE + "hash_to_scalar", "*"), (GE + "is_zero_scalar", "*")],
        "exclude": {"strict"},
        "kani": {"quick": [("api", "x25519_pk_no_small_order"), ("api", "x25519_sk_nonzero"), ("api", "ristretto_sk_valid"), ("api", "ristretto_pk_decode_rejects_identity")],
                 "thorough": [("api", "x25519_pk_decode_identity"), ("api", "x25519_sk_decode"), ("api", "ristretto_sk_decode"), ("api", "ristretto_decode_length"), ("api", "x25519_sk_decode_length")]},
        "replay": ["c11"],
    }],
    "witness": "c11",
    "explanation": "Group level (Kani on the real KeGroup impls): Curve25519 deserialize_pk never yields the identity or a small-order point (canonical and non-reduced spellings, with and without bit 255), deserialize_sk only clamped non-zero scalars (complete over 2^256); ristretto255 deserialize_pk never yields the identity (decompress stubbed by its contract), deserialize_sk never zero / non-canonical. Message level (Verus): every group-element and scalar field of every message and state is obtained ONLY through those decoders (the `fields` clauses: Some(field) == de_pk / de_sk / de_elem / de_scalar of the corresponding input bytes) plus the explicit identity checks on OPRF elements in login messages (`nonid`).",
    "assumptions": [A_PRELUDE, "off-curve / non-canonical rejection inside dalek decompress, elliptic-curve from_sec1_bytes, Scalar::from_canonical_bytes is the dependency's contract (sampled by the replay crate)", "NIST KeGroup wrapper (blanket impl in elliptic_curve.rs): under Verus contract against a shim of elliptic-curve (PublicKey::from_sec1_bytes never yields the identity, SecretKey::from_slice only non-zero in-range scalars: the dependency's documented type invariants, assumed); additionally sampled exhaustively over the tag byte by the replay crate — testing, not proof",
                    "serde: the four hand-written key impls are under contract (they route through KG::deserialize_* / serialize_* and nothing else; serde itself is a shim); derived impls are generated code (assumed field-wise), exercised by the replay crate through bincode and JSON"],
}

PROPS["C12"] = {
    "alternatives": [{
        "name": "no-panic-obligations",
        # refusal clauses (over-long inputs are refused, never truncated); every panic condition is a body obligation (`body_of`), including the
        # panic-guarding preconditions of into_custom / MaskedResponse::deserialize / to_array_* / unmask_response at their call sites
        "clauses": [(G + "i2osp_2", "conf"), (G + "i2osp_2", "errkind"), (O + "bytestrings_from_identifiers", "ok_iff"), (O + "bytestrings_from_identifiers", "errkind"),
                    (S + "Input::from", "ok_iff"), (S + "Input::from", "err"), (S + "Input::from_owned", "ok_iff"), (S + "Input::from_label", "ok_iff"), (S + "Input::from_label", "err"),
                    (T + "hkdf_expand_label_extracted", "ok_iff"), (T + "hkdf_expand_label_extracted", "errkind"), (T + "TripleDh::generate_ke2", "ctx_err"), (T + "TripleDh::generate_ke3", "ctx_err"),
                    (O + "get_password_derived_key", "len_err")],
        "body_of": "*",
        "kani": {"quick": [("leaf", "i2osp_u2_exact"), ("leaf", "i2osp_u1_exact"), ("leaf", "input_from_refuses_long"), ("leaf", "check_slice_size_exact")],
                 "thorough": [("leaf", "input_from_iter_bounded"), ("leaf", "input_owned_iter_bounded"), ("leaf", "input_label_arrays_bounded"), ("leaf", "chain_iter_order_bounded"), ("api", "x25519_sk_decode_length"), ("api", "ristretto_decode_length")]},
        "replay": ["c12"],
    }],
    "witness": "c12",
    "explanation": "Verus proves, for every extracted function, absence of arithmetic overflow, out-of-range slicing, failed unwrap and reachable unreachable!(), with library panic conditions turned into shim preconditions (clone_from_slice length, slice ranges, from_prk length). MaskedResponse::deserialize (unchecked indexing) is safe because both callers pass exactly Nn+Nh+Npk bytes (precondition proved at both sites). I2OSP refuses every length that does not fit (Kani, complete over usize) so identities/context > 65535 give Err(SerializationError), never truncation; a password > 65535 bytes is refused by the OPRF finalize step. The only loop in extracted code (DeriveKeyPair, 256 iterations) is a bounded `for`.",
    "assumptions": ["NIST group: values of type KeGroup::Pk are assumed never to be the identity (constructor audit: deserialize_pk refuses it; public keys and DH results come from non-zero scalars in a prime-order group). serialize_pk(identity) would panic (1-byte SEC1 encoding into a fixed-size array); reaching it needs a direct call of the group trait with a hand-made identity point, which is outside the API the property names", A_PRELUDE, "KeyPair::generate_random's unwrap() is reachable only if 256 consecutive hash-to-scalar outputs are zero (precondition `derive_ok`, negligible)", "rejection-sampling loops live in dependencies (assumed to terminate)",
                    "Curve25519::hash_to_scalar is unimplemented!(): never called by the protocol (no extracted caller references it)"],
}

PROPS["C13"]["alternatives"][0]["theorems"].append("thm_c13_server_setup_external")
PROPS["C13"]["alternatives"][0]["replay"] = ["c13", "c18ext"]
PROPS["C18"]["alternatives"][0]["theorems"].append("thm_c13_server_setup_external")

PROPS["C19"] = {
    "alternatives": [{
        "name": "wrappers-and-derivation",
        "clauses": [(G + "KeGroup::derive_auth_keypair", "*"), (G + "i2osp_2", "*"), (K + "KeyPair::generate_random", "*"), (K + "KeyPair::from_private_key", "*"), (K + "KeyPair::from_private_key_slice", "*"),
                    (K + "KeyPair::public", "*"), (K + "KeyPair::private", "*"), (K + "PrivateKey::diffie_hellman", "*"), (K + "PrivateKey::public_key", "*"), (K + "PrivateKey::serialize", "*"),
                    (K + "PrivateKey::deserialize", "*"), (K + "PublicKey::deserialize", "*"), (K + "PublicKey::serialize", "*"),
                    (GE + "serialize_pk", "*"), (GE + "deserialize_pk", "*"), (GE + "hash_to_scalar", "*"), (GE + "public_key", "*"), (GE + "is_zero_scalar", "*"), (GE + "diffie_hellman", "*"),
                    (GE + "serialize_sk", "*"), (GE + "deserialize_sk", "*"), (GE + "derive_auth_keypair", "*")],
        # "key encodings round-trip exactly" is read in both directions (encode-decode and decode-encode): the canonicity of the key decoders counts here too
        "kani": {"quick": [("api", "x25519_derive_is_clamp"), ("api", "x25519_pk_accepts_valid"), ("api", "x25519_pk_canonical"), ("api", "x25519_sk_decode")],
                 "thorough": [("api", "x25519_pk_decode_identity"), ("api", "ristretto_sk_decode")]},
        "replay": ["c19"],
    }],
    "witness": "c19",
    "explanation": "Proved: the default DeriveDiffieHellmanKeyPair equals RFC 9497 DeriveKeyPair with info 'OPAQUE-DeriveDiffieHellmanKeyPair' and DST 'DeriveKeyPair' || 'OPRFV1-' || 0 || '-' || suite id — loop invariant 'all earlier counters gave zero', first non-zero scalar returned, Err only after 256 zeros (Verus, all suites); Curve25519's derivation == RFC 7748 clamp(seed), non-zero, survives save/reload (Kani, all 2^256 seeds); KeyPair invariant public == public_key(private); PrivateKey / PublicKey wrappers forward to the group unchanged.",
    "assumptions": ["NIST group: values of type KeGroup::Pk are assumed never to be the identity (constructor audit: deserialize_pk refuses it; public keys and DH results come from non-zero scalars in a prime-order group). serialize_pk(identity) would panic (1-byte SEC1 encoding into a fixed-size array); reaching it needs a direct call of the group trait with a hand-made identity point, which is outside the API the property names", A_PRELUDE, "that scalar multiplication in dalek / p256 / p384 / p521 is a group action (DH symmetry, public-key consistency) and that their canonical codecs round-trip: arithmetic of dependencies, outside the reach of contracts on this repo; sampled by the replay crate incl. scalars 1 and random, all groups"],
}

NOT_APPLICABLE = {}
HOOK_COMMITS = []
