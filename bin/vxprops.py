"""Registry: which obligations decide which property (see DESIGN.md section 4)."""

T = "tripledh::"
O = "opaque::"
M = "messages::"
E = "envelope::"

# theorems that carry hypotheses (requires) and therefore get a vacuity twin check
VACUITY_THEOREMS = set()
# bounded Kani harnesses and their bounds (everything else is loop-free over the full input domain)
KANI_BOUNDS = {}

PROPS = {}

PROPS["C03"] = {
    "alternatives": [{
        "name": "mac-gate",
        "clauses": [
            (T + "TripleDh::finish_ke", "sound"), (T + "TripleDh::finish_ke", "complete"), (T + "TripleDh::finish_ke", "key"), (T + "TripleDh::finish_ke", "errkind"),
            (O + "ServerLogin::finish", "*"),
            (T + "Ke3Message::deserialize", "*"), (M + "CredentialFinalization::deserialize", "*"),
            (T + "Ke2State::deserialize", "*"), (T + "Ke2State::serialize", "*"), (O + "ServerLogin::deserialize", "*"), (O + "ServerLogin::serialize", "*"),
            (T + "TripleDh::generate_ke2", "rfc"), (O + "ServerLogin::start", "rfc"),
            ("errors::check_slice_size", "*"),
        ],
        "theorems": ["thm_c03_exact", "thm_c03_expected_tag", "thm_c03_reload"],
    }],
    "witness": "c03",
    "explanation": "ServerLogin::finish(st, m) is Ok <=> m == HMAC(st.km3, st.hashed_transcript), proved for all states and all byte strings m on the real finish_ke / ServerLogin::finish / decoders; the expected tag of a state produced by ServerLogin::start is the RFC 9807 client MAC of that session's transcript.",
    "assumptions": [
        "hmac::Mac::verify accepts exactly the full-length tag HMAC(key, msg) (prelude contract; constant-time-ness not modelled)",
        "that tags of other sessions are different byte strings needs collision-freedom of HMAC/Hash (not asserted; exact characterisation is proved instead)",
    ],
}

NOT_APPLICABLE = {}
HOOK_COMMITS = []
