#!/usr/bin/env python3
"""Self-test of the checks against hand-made property-breaking changes (and property-preserving ones).

Each mutant is a textual replacement in /repo's working tree; it is applied, the listed checks are run, and the tree is restored
(git checkout) straight afterwards.  Expected: every property in `breaks` reports VIOLATION (exit 1), every property in `keeps`
stays OK (exit 0).  Nothing here is ever committed to /repo.   usage: bin/selftest.py [name ...]
"""
import json
import os
import subprocess
import sys
import time

REPO = "/repo"
V = os.path.dirname(os.path.dirname(os.path.abspath(__file__)))

M = []


def mut(name, file, old, new, breaks, keeps=(), note=""):
    M.append(dict(name=name, file=file, old=old, new=new, breaks=list(breaks), keeps=list(keeps), note=note))


mut("finish_ke_no_verify", "src/key_exchange/tripledh.rs",
    """        client_mac
            .verify(&ke3_message.mac)
            .map_err(|_| ProtocolError::InvalidLoginError)?;

        Ok(ke2_state.session_key.clone())""",
    """        let _ = (client_mac, &ke3_message);
        Ok(ke2_state.session_key.clone())""",
    breaks=["C03", "C07", "C08"], keeps=["C01", "C04", "C10"], note="server MAC comparison deleted: all 91 tests stay green")

mut("ke3_no_server_mac_verify", "src/key_exchange/tripledh.rs",
    """        server_mac
            .verify(&ke2_message.mac)
            .map_err(|_| ProtocolError::InvalidLoginError)?;
""", """        let _ = &server_mac;
""",
    breaks=["C04", "C07"], keeps=["C01", "C02", "C03", "C06"], note="client no longer verifies the server MAC; wrong passwords still fail at the envelope (C02 holds by its other alternative)")

mut("envelope_no_verify", "src/envelope.rs",
    """        hmac.verify(&self.hmac)
            .map_err(|_| InternalError::SealOpenHmacError)?;
""", """        let _ = &hmac;
""",
    breaks=["C06", "C05"], keeps=["C01", "C02", "C03"], note="envelope MAC not checked: server key / sealed identities no longer bound; wrong passwords still fail at the server MAC")

mut("oprf_key_ignores_cred_id", "src/opaque.rs",
    "hkdf.expand_multi_info(&[credential_identifier, STR_OPRF_KEY], &mut ikm)",
    "hkdf.expand_multi_info(&[&credential_identifier[..0], STR_OPRF_KEY], &mut ikm)",
    breaks=["C09", "C14", "C05"], keeps=["C01", "C03"], note="per-credential OPRF key ignores the credential identifier")

mut("label_typo_session_key", "src/key_exchange/tripledh.rs",
    'static STR_SESSION_KEY: &[u8] = b"SessionKey";', 'static STR_SESSION_KEY: &[u8] = b"SessionKeys";',
    breaks=["C09"], keeps=["C01", "C03", "C04"], note="both sides agree, so everything works; only RFC conformance is lost")

mut("ke3_decode_atleast", "src/key_exchange/tripledh.rs",
    """        let checked_bytes = check_slice_size(bytes, OutputSize::<D>::USIZE, "ke3_message")?;

        Ok(Self {
            mac: GenericArray::clone_from_slice(checked_bytes),
        })""",
    """        let checked_bytes = check_slice_size_atleast(bytes, OutputSize::<D>::USIZE, "ke3_message")?;

        Ok(Self {
            mac: GenericArray::clone_from_slice(&checked_bytes[..OutputSize::<D>::USIZE]),
        })""",
    breaks=["C10"], keeps=["C01"], note="exact length check replaced by at-least: trailing bytes accepted")

mut("ksf_param_ignored", "src/opaque.rs",
    """    let hardened_output = if let Some(ksf) = ksf {
        ksf.hash(oprf_output.clone())
    } else {
        CS::Ksf::default().hash(oprf_output.clone())
    }""",
    """    let _ = ksf;
    let hardened_output = CS::Ksf::default().hash(oprf_output.clone())""",
    breaks=["C15", "C09"], keeps=["C03"], note="caller-supplied KSF instance ignored (Identity in every test)")

mut("fake_record_early_error", "src/opaque.rs",
    """        let record = match password_file {
            Some(x) => x,
            None => ServerRegistration::dummy(rng, server_setup),
        };
""", """        let record = match password_file {
            Some(x) => x,
            None => return Err(ProtocolError::InvalidLoginError),
        };
""",
    breaks=["C08"], keeps=[], note="unregistered users get an error instead of a fake response (C03 also reports: its obligation ServerLogin::start.state fails, although no state exists to be completed - an over-alarm on a broken tree, kept as is)")

mut("ke2_transcript_omits_server_nonce", "src/key_exchange/tripledh.rs",
    """            .chain_iter(l2_bytes)
            .chain(server_nonce)
            .chain(server_e_kp.public().serialize());""",
    """            .chain_iter(l2_bytes)
            .chain(server_e_kp.public().serialize());""",
    breaks=["C09", "C01"], keeps=[], note="server transcript omits its nonce")

mut("envelope_nonce_not_random", "src/envelope.rs",
    """        let mut nonce = GenericArray::default();
        rng.fill_bytes(&mut nonce);

        let (mode, client_s_pk)""", """        let nonce = GenericArray::default();
        let _ = &rng;

        let (mode, client_s_pk)""",
    breaks=["C17", "C16", "C09"], keeps=["C03"], note="envelope nonce constant: export key no longer separated across registrations")

mut("login_error_not_mapped", "src/opaque.rs",
    """            .map_err(|e| match e {
                ProtocolError::LibraryError(InternalError::SealOpenHmacError) => {
                    ProtocolError::InvalidLoginError
                }
                err => err,
            })?;""", """?;""",
    breaks=["C02", "C08"], keeps=["C01", "C03"], note="envelope failure surfaces as LibraryError(SealOpenHmacError) instead of InvalidLoginError")

mut("i2osp_check_loosened", "src/serialization/mod.rs",
    "if (SIZEOF_USIZE as u32 - input.leading_zeros() / 8) > L::U32 {", "if (SIZEOF_USIZE as u32 - input.leading_zeros() / 8) > L::U32 + 1 {",
    breaks=["C05", "C12", "C09"], keeps=[], note="lengths one byte wider than the prefix are accepted and silently truncated")

mut("derive_keypair_counter_range", "src/key_exchange/group/mod.rs",
    "for counter in 0_u8..=u8::MAX {", "for counter in 1_u8..=u8::MAX {",
    breaks=["C19", "C09"], keeps=["C03"], note="DeriveKeyPair counter starts at 1")

mut("masked_response_short_slice", "src/opaque.rs",
    "    Ok(MaskedResponse::deserialize(&xor_pad))", "    Ok(MaskedResponse::deserialize(&xor_pad[1..]))",
    breaks=["C12"], keeps=["C03"], note="unchecked indexing in MaskedResponse::deserialize can now go out of range (panic)")

mut("registration_request_length_check_removed", "src/messages.rs",
    """        let checked_slice = check_slice_size(input, elem_len, "registration_request_bytes")?;
""", """        let checked_slice = check_slice_size_atleast(input, elem_len, "registration_request_bytes")?;
""",
    breaks=[], keeps=["C01", "C03", "C10"], note="weakens the length pre-check to at-least; harmless since fix D2b: the canonical-element helper compares the re-encoding with the whole input, so trailing bytes are still refused")

mut("x25519_small_order_filter_removed", "src/key_exchange/group/curve25519.rs",
    """            .filter(|pk| pk.mul_clamped([0; 32]) != MontgomeryPoint::identity())
""", "",
    breaks=["C11"], keeps=["C03"], note="re-introduces D3")

mut("nist_sk_filter_removed", "src/key_exchange/group/elliptic_curve.rs",
    """            .filter(|sk| Self::serialize_sk(*sk).as_slice() == bytes)
""", """            .filter(|sk| Self::serialize_sk(*sk).as_slice().len() >= bytes.len())
""",
    breaks=["C10", "C19"], keeps=["C11", "C09", "C01"], note="re-introduces D5 (zero-padded short NIST scalars); C19 because 'key encodings round-trip exactly' is read in both directions")

mut("nist_pk_filter_removed", "src/key_exchange/group/elliptic_curve.rs",
    """            .filter(|pk| Self::serialize_pk(*pk).as_slice() == bytes)
""", """            .filter(|pk| Self::serialize_pk(*pk).as_slice().len() == bytes.len())
""",
    breaks=["C10", "C19"], keeps=["C01"], note="re-introduces D2a (SEC1 compact tag 05 accepted for NIST key-exchange keys); C19 as above")

mut("nist_hash_to_scalar_zero_accepted", "src/key_exchange/group/elliptic_curve.rs",
    """                if bool::from(scalar.is_zero()) {""", """                if bool::from(scalar.is_zero()) && false {""",
    breaks=["C19", "C11"], keeps=["C10"], note="a zero hash-to-scalar output would be returned as a private key (probability 2^-256: no test or generator can reach it)")

mut("serde_private_key_skips_group_decoder", "src/keypair.rs",
    """        KG::serialize_sk(self.0).serialize(serializer)""", """        KG::serialize_sk(self.0).as_slice().serialize(serializer)""",
    breaks=["C13"], keeps=["C11"], note="serializes a slice instead of a fixed array: bincode then writes a length prefix that the array-reading Deserialize impl does not expect, so a saved key no longer reloads")

mut("argon2_salt_nonzero", "src/ksf.rs",
    """&[0; argon2::RECOMMENDED_SALT_LEN]""", """&[1; argon2::RECOMMENDED_SALT_LEN]""",
    breaks=["C09"], keeps=["C01", "C03"], note="Argon2 adapter salts with 01..01 instead of zeros: consistent on both sides, only RFC conformance is lost")

mut("input_iter_payload_first", "src/serialization/mod.rs",
    """        [self.octet.as_slice()]
            .into_iter()
            .chain(match &self.input {
                InnerInput::Owned(bytes) => [bytes.as_slice()],
                InnerInput::Borrowed(bytes) => [*bytes],
                InnerInput::Label((iter, _)) => [iter[0]],
            })""", """        (match &self.input {
                InnerInput::Owned(bytes) => [bytes.as_slice()],
                InnerInput::Borrowed(bytes) => [*bytes],
                InnerInput::Label((iter, _)) => [iter[0]],
            })
            .into_iter()
            .chain([self.octet.as_slice()])""",
    breaks=["C05", "C09"], keeps=["C03"], note="length prefix AFTER the payload: framing no longer injective (both sides agree, tests pass)")

mut("input_iter_dead_label_arm", "src/serialization/mod.rs",
    """                InnerInput::Label((iter, _)) => [iter[0]],""", """                InnerInput::Label((iter, _)) => [iter[1]],""",
    breaks=[], keeps=["C01", "C03"], note="changes a branch no call site reaches (iter() on a label): must not raise an alarm (undecided is acceptable for C05/C09)")

mut("harmless_check_slice_size_if_else", "src/errors.rs",
    """        if slice.len() != expected_len {
            return Err(InternalError::SizeError {
                name: arg_name,
                len: expected_len,
                actual_len: slice.len(),
            });
        }
        Ok(slice)
    }

    pub fn check_slice_size_atleast""", """        if slice.len() == expected_len {
            Ok(slice)
        } else {
            Err(InternalError::SizeError {
                name: arg_name,
                len: expected_len,
                actual_len: slice.len(),
            })
        }
    }

    pub fn check_slice_size_atleast""",
    breaks=[], keeps=["C03", "C10", "C12", "C13"], note="property-preserving: early return rewritten as if / else")

mut("harmless_server_finish_inlined_binding", "src/opaque.rs",
    """        let session_key = <CS::KeyExchange as KeyExchange<OprfHash<CS>, CS::KeGroup>>::finish_ke(
            message.ke3_message,
            &self.ke2_state,
        )?;

        Ok(ServerLoginFinishResult {
            session_key,""", """        let ke3 = message.ke3_message;
        let state = &self.ke2_state;
        let key = <CS::KeyExchange as KeyExchange<OprfHash<CS>, CS::KeGroup>>::finish_ke(ke3, state)?;

        Ok(ServerLoginFinishResult {
            session_key: key,""",
    breaks=[], keeps=["C03", "C07", "C08", "C09"], note="property-preserving: temporaries introduced, field init written out")

mut("harmless_mask_response_pad_first", "src/opaque.rs",
    """    let mut xor_pad = GenericArray::<_, MaskedResponseLen<CS>>::default();

    Hkdf::<OprfHash<CS>>::from_prk(masking_key)
        .map_err(|_| InternalError::HkdfError)?
        .expand_multi_info(&[masking_nonce, STR_CREDENTIAL_RESPONSE_PAD], &mut xor_pad)
        .map_err(|_| InternalError::HkdfError)?;
""", """    let hkdf = Hkdf::<OprfHash<CS>>::from_prk(masking_key).map_err(|_| InternalError::HkdfError)?;
    let mut xor_pad = GenericArray::<_, MaskedResponseLen<CS>>::default();
    hkdf.expand_multi_info(&[masking_nonce, STR_CREDENTIAL_RESPONSE_PAD], &mut xor_pad)
        .map_err(|_| InternalError::HkdfError)?;
""",
    breaks=[], keeps=["C01", "C06", "C08", "C09"], note="property-preserving: HKDF object bound to a local before the output buffer is created")

mut("harmless_extract_helper", "src/opaque.rs",
    """    pub fn finish(message: RegistrationUpload<CS>) -> Self {
        Self(message)
    }""", """    pub fn finish(message: RegistrationUpload<CS>) -> Self {
        Self::from_upload(message)
    }

    fn from_upload(message: RegistrationUpload<CS>) -> Self {
        Self(message)
    }""",
    breaks=[], keeps=["C01", "C09", "C13"], note="property-preserving: a trivial helper extracted (new function without contract: callers become undecided at worst, never a violation)")

mut("harmless_rename_and_reorder", "src/key_exchange/tripledh.rs",
    """        let server_e_kp = KeyPair::<KG>::generate_random::<OprfCs, _>(rng);
        let server_nonce = generate_nonce::<R>(rng);
""", """        let eph = KeyPair::<KG>::generate_random::<OprfCs, _>(rng);
        let server_e_kp = eph;
        let server_nonce = generate_nonce::<R>(rng);
""",
    breaks=[], keeps=["C01", "C03", "C04", "C09", "C17"], note="property-preserving edit: must not raise any alarm")


def run_check(pid):
    p = subprocess.run([os.path.join(V, "bin", "check"), pid], capture_output=True, text=True, cwd=V)
    last = [l for l in p.stdout.strip().split("\n") if l.strip()][-1:] or [""]
    return p.returncode, last[0]


def emit(outdir):
    """write every mutant as <outdir>/<name>/{patch.diff,meta.json} (for bin/matrix.py, which runs them in isolation)"""
    assert subprocess.run(["git", "-C", REPO, "status", "--porcelain"], capture_output=True, text=True).stdout.strip() == "", "/repo not clean"
    for m in M:
        path = os.path.join(REPO, m["file"])
        src = open(path).read()
        if m["old"] not in src:
            print("SKIP (anchor not found):", m["name"]); continue
        try:
            open(path, "w").write(src.replace(m["old"], m["new"], 1))
            diff = subprocess.run(["git", "-C", REPO, "diff"], capture_output=True, text=True).stdout
        finally:
            subprocess.run(["git", "-C", REPO, "checkout", "--", "."])
        d = os.path.join(outdir, "own-" + m["name"])
        os.makedirs(d, exist_ok=True)
        open(os.path.join(d, "patch.diff"), "w").write(diff)
        json.dump({"property": (m["breaks"] or ["none"])[0], "expected_violations": m["breaks"], "expected_ok": m["keeps"], "summary": m["note"]}, open(os.path.join(d, "meta.json"), "w"), indent=1)
    print("emitted", len(M), "mutants to", outdir)


def main():
    if len(sys.argv) >= 3 and sys.argv[1] == "--emit":
        return emit(sys.argv[2])
    sel = sys.argv[1:]
    out = []
    assert subprocess.run(["git", "-C", REPO, "status", "--porcelain"], capture_output=True, text=True).stdout.strip() == "", "/repo not clean"
    for m in M:
        if sel and m["name"] not in sel:
            continue
        path = os.path.join(REPO, m["file"])
        src = open(path).read()
        if m["old"] not in src:
            print("SKIP (anchor not found):", m["name"]); out.append({"name": m["name"], "skipped": True}); continue
        t0 = time.time()
        try:
            open(path, "w").write(src.replace(m["old"], m["new"], 1))
            res = {}
            for pid in m["breaks"] + m["keeps"]:
                res[pid] = run_check(pid)
        finally:
            subprocess.run(["git", "-C", REPO, "checkout", "--", "."])
        ok = all(res[p][0] == 1 for p in m["breaks"]) and all(res[p][0] == 0 for p in m["keeps"])
        print(("PASS " if ok else "FAIL ") + m["name"], {p: res[p][0] for p in res}, "%.0fs" % (time.time() - t0), flush=True)
        for p in res:
            exp = 1 if p in m["breaks"] else 0
            if res[p][0] != exp:
                print("    ", p, "expected", exp, "got", res[p][0], "|", res[p][1][:300], flush=True)
        out.append({"name": m["name"], "note": m["note"], "expected_violations": m["breaks"], "expected_ok": m["keeps"], "results": {p: {"rc": res[p][0], "line": res[p][1][:300]} for p in res}, "as_expected": ok})
    json.dump(out, open(os.path.join(V, "gen", "selftest.json"), "w"), indent=1)
    # evidence and replay files written by mutant runs are not evidence of the unchanged tree
    subprocess.run(["git", "-C", V, "checkout", "--", "evidence"])
    for f in os.listdir(os.path.join(V, "replays")):
        os.remove(os.path.join(V, "replays", f))


if __name__ == "__main__":
    main()
