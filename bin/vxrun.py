"""Driver: runs the verifiers for one property, decides, writes evidence / replay files."""
import concurrent.futures
import glob
import hashlib
import json
import os
import re
import shutil
import subprocess
import sys
import time

import vxlib
import vxprops

VERIF = vxlib.VERIF
REPO = vxlib.REPO
EVID = os.path.join(VERIF, "evidence")
REPLAYS = os.path.join(VERIF, "replays")
CACHE = os.path.join(VERIF, ".build", "cache")
KNOWN = os.path.join(VERIF, "known_findings.json")


def log(*a):
    print(*a, flush=True)


# --------------------------------------------------------------------------------------------- hashing / cache
def inputs_hash(extra=()):
    files = vxlib.repo_sources()
    for d in ("verus", "contracts", "bin", "extractor/src"):
        for root, _, fs in os.walk(os.path.join(VERIF, d)):
            for f in fs:
                if f.endswith((".rs", ".vc", ".py", ".json")) or f == "check":
                    files.append(os.path.join(root, f))
    files += list(extra)
    return vxlib.sha(files)


def cache_get(key):
    if os.environ.get("VX_NOCACHE"):
        return None
    p = os.path.join(CACHE, key + ".json")
    if os.path.exists(p):
        try:
            return json.load(open(p))
        except Exception:
            return None
    return None


def cache_put(key, val):
    os.makedirs(CACHE, exist_ok=True)
    tmp = os.path.join(CACHE, key + ".json.tmp%d" % os.getpid())
    json.dump(val, open(tmp, "w"))
    os.replace(tmp, os.path.join(CACHE, key + ".json"))


# --------------------------------------------------------------------------------------------- verus
def verus_pass(vacuity, seed_args=None, tag="", extracted=None):
    """one assemble + verus run; returns a JSON-able summary"""
    force = {}
    drop = {}
    for _round in range(6):
        A = vxlib.assemble(vacuity=vacuity, extracted=extracted, force_external=force, drop_contract=drop)
        name = ("vacuity" if vacuity else "opaque_verif") + tag + ".rs"
        path = vxlib.write_file(A, name)
        res = vxlib.run_verus(path, extra=seed_args)
        fc, ff, tf, hard, rl = vxlib.classify(A, res)
        # type errors / unsupported constructs confined to extracted function bodies: drop those bodies (contract assumed,
        # function reported as refused) and try again, so that one foreign construct does not make every property undecided
        new = {k: v for k, v in A.hard_fns.items() if k not in force}
        if hard and new and len(A.hard_fns) >= 1:
            force.update(new)
            continue
        # still a type error inside a function whose body is already gone: its CONTRACT no longer type-checks (changed signature / fields).
        # Drop the contract too: the function becomes one without contract (its callers' failures are "needs contract": undecided)
        again = {k: v for k, v in A.hard_fns.items() if k in force and k not in drop}
        if hard and again:
            drop.update(again)
            continue
        break
    times = vxlib.fn_times(res)
    pre_cnt, outside = vxlib.scan_assumptions(A)
    vr = (res["json"] or {}).get("verification-results", {})
    return {
        "path": path, "cmd": res["cmd"], "rc": res["rc"], "wall": res["wall"],
        "verified": vr.get("verified"), "errors": vr.get("errors"),
        "failed_clauses": {f"{k[0]}|{k[1]}": v[:2] for k, v in fc.items()},
        "failed_fns": {k: v[:3] for k, v in ff.items()},
        "panic_fns": {k: v[:3] for k, v in getattr(A, "panic_fns", {}).items()},
        "calls_uncontracted": A.calls_uncontracted, "lost_contracts": A.lost_contracts, "auto_contracts": A.auto_contracts,
        "failed_theorems": {k: v[:2] for k, v in tf.items()},
        "hard": hard[:10], "rlimit": rl[:10],
        "contracted": A.contracted, "uncontracted": A.uncontracted, "external": A.external, "refused": A.refused,
        "clauses": {f"{k[0]}|{k[1]}": v for k, v in A.clauses.items()},
        "clause_lines": sorted(set(f"{v[0]}|{v[1]}" for v in A.clause_at.values())),
        "fn_times": times, "prelude_assumptions": pre_cnt, "assumptions_outside_prelude": outside,
        "rules_applied": A.meta.get("rules_applied"), "dropped": A.meta.get("dropped"),
        "lost_anchors": vxlib.check_anchors(A.meta), "unsafe_seen": A.meta.get("unsafe_seen"), "serde_attrs_differ": vxlib.serde_attrs_differ(A.meta),
        "smt_ms": ((res["json"] or {}).get("times-ms", {}).get("smt", {}) or {}).get("total"),
        "theorem_names": theorem_names(A),
        "no_output": (res["json"] is None),
        "stderr_tail": res["stderr"][-1500:] if res["json"] is None else "",
    }


def theorem_names(A):
    out = []
    for q in range(0, len(A.lines)):
        m = re.match(r"^\s*(pub\s+)?(broadcast\s+)?(proof\s+|exec\s+)?fn\s+(thm_\w+|lemma_\w+)", A.lines[q])
        if m:
            out.append(m.group(4))
    return out


def verus_results(tier):
    key = "verus-" + inputs_hash() + "-" + tier
    c = cache_get(key)
    if c:
        c["cache_hit"] = True
        return c
    extracted = vxlib.run_extractor()
    with concurrent.futures.ThreadPoolExecutor(max_workers=2) as ex:
        f1 = ex.submit(verus_pass, False, None, "", extracted)
        f2 = ex.submit(verus_pass, True, None, "", extracted)
        main, vac = f1.result(), f2.result()
    out = {"main": main, "vacuity": vac, "cache_hit": False, "at": time.time()}
    if tier == "thorough":
        # re-run with two other SMT seeds: an obligation that flips is unstable (=> undecided), not a violation
        extra = []
        for sd in (7, 101):
            extra.append(verus_pass(False, seed_args=["--smt-option", f"smt.random_seed={sd}", "--smt-option", f"sat.random_seed={sd}"], tag=f"_seed{sd}", extracted=extracted))
        out["seeds"] = extra
    cache_put(key, out)
    return out


# --------------------------------------------------------------------------------------------- kani
def kani_crate_hash(crate):
    # kani/leaf compiles exactly two files of /repo (#[path] includes); kani/api links the whole crate
    if crate == "leaf":
        files = [os.path.join(REPO, "src", "errors.rs"), os.path.join(REPO, "src", "serialization", "mod.rs"), os.path.join(REPO, "Cargo.lock")]
    else:
        files = vxlib.repo_sources() + [os.path.join(REPO, "Cargo.toml"), os.path.join(REPO, "Cargo.lock")]
    for root, _, fs in os.walk(os.path.join(VERIF, "kani", crate)):
        if "target" in root:
            continue
        for f in fs:
            if f.endswith((".rs", ".toml")):
                files.append(os.path.join(root, f))
    return vxlib.sha(files)


def run_kani(crate, harness, timeout=1800, extra_args=None):
    """returns dict(status= success|failure|error, time, detail)"""
    key = "kani-%s-%s-%s" % (crate, harness, kani_crate_hash(crate))
    c = cache_get(key)
    if c:
        c["cache_hit"] = True
        return c
    cdir = os.path.join(VERIF, "kani", crate)
    # the harness crate must resolve exactly the dependency versions /repo uses
    if not os.path.isdir(cdir):
        return {"crate": crate, "harness": harness, "status": "error", "wall": 0, "rc": -1, "failed_checks": [], "stubs": [], "cmd": "", "tail": "kani crate missing", "cache_hit": False}
    shutil.copyfile(os.path.join(REPO, "Cargo.lock"), os.path.join(cdir, "Cargo.lock"))
    env = dict(os.environ)
    env["CARGO_NET_OFFLINE"] = "true"
    env["CARGO_TARGET_DIR"] = os.path.join(VERIF, ".build", "kani-" + crate)
    cmd = ["cargo", "kani", "-Z", "stubbing", "-Z", "function-contracts", "--harness", "proofs::" + harness, "--exact", "--output-format", "terse"] + (extra_args or [])
    t0 = time.time()
    try:
        p = subprocess.run(cmd, cwd=cdir, env=env, capture_output=True, text=True, timeout=timeout)
        out = p.stdout + p.stderr
        rc = p.returncode
    except subprocess.TimeoutExpired as e:
        out = (e.stdout or b"").decode() if isinstance(e.stdout, bytes) else (e.stdout or "")
        rc = -9
    wall = time.time() - t0
    status = "error"
    if "VERIFICATION:- SUCCESSFUL" in out:
        status = "success"
    elif "VERIFICATION:- FAILED" in out:
        status = "failure"
    failed = re.findall(r"^Failed Checks: (.*)$", out, re.M)
    if status == "failure" and failed and all("unwinding assertion" in f for f in failed):
        # the only failing checks say "a loop needs more unwinding than the harness allows": the changed code left the harness' bound
        # (typically real field arithmetic where a stub used to stand) - a tool limit, not a refuted assertion
        status = "error"
    stubs = re.findall(r"^\s*- Stub: (.*)$", out, re.M)
    res = {"crate": crate, "harness": harness, "status": status, "wall": wall, "rc": rc, "failed_checks": failed[:10],
           "stubs": stubs, "cmd": " ".join(cmd), "tail": out[-3000:] if status != "success" else out[-400:], "cache_hit": False}
    if status in ("success", "failure"):
        cache_put(key, res)
    return res


def run_kani_many(items, jobs=6, timeout=1800):
    out = []
    with concurrent.futures.ThreadPoolExecutor(max_workers=jobs) as ex:
        futs = [ex.submit(run_kani, c, h, timeout) for (c, h) in items]
        for f in futs:
            out.append(f.result())
    return out


# --------------------------------------------------------------------------------------------- replay crate
def replay_bin():
    return os.path.join(VERIF, ".build", "replay", "release", "vx-replay")


def build_replay():
    """(re)build the replay crate against /repo's current tree; returns None or an error string"""
    cdir = os.path.join(VERIF, "replay")
    if not os.path.exists(os.path.join(cdir, "Cargo.toml")):
        return "replay crate missing"
    env = dict(os.environ)
    env["CARGO_NET_OFFLINE"] = "true"
    env["CARGO_TARGET_DIR"] = os.path.join(VERIF, ".build", "replay")
    p = subprocess.run(["cargo", "build", "--release", "--offline"], cwd=cdir, env=env, capture_output=True, text=True)
    if p.returncode != 0:
        return "replay crate does not build against /repo's current tree:\n" + p.stderr[-2000:]
    return None


def run_replay(args, timeout=900):
    err = build_replay()
    if err:
        return {"error": err}
    try:
        p = subprocess.run([replay_bin()] + args, capture_output=True, text=True, timeout=timeout)
    except subprocess.TimeoutExpired:
        return {"error": "replay timed out"}
    try:
        return json.loads(p.stdout[p.stdout.index("{"):])
    except Exception:
        return {"error": "replay output unparsable", "stdout": p.stdout[-1500:], "stderr": p.stderr[-1500:], "rc": p.returncode}


# --------------------------------------------------------------------------------------------- known findings
def load_known():
    if not os.path.exists(KNOWN):
        return []
    return json.load(open(KNOWN)).get("findings", [])


def known_match(pid, oblig):
    """a `known` (not `fixed`) entry that names exactly this failed obligation"""
    for f in load_known():
        if f.get("status") == "known" and f.get("property") == pid and f.get("obligation") == oblig:
            return f
    return None


def known_witness(pid, gen, w):
    """the `known` entry that lists exactly this witness of generator `gen` (decoder, tag byte, suite family), if any"""
    for f in load_known():
        if f.get("status") != "known" or f.get("property") != pid or f.get("obligation") != f"replay::{gen}":
            continue
        m = f.get("match", {})
        det = w.get("detail", {}) if isinstance(w, dict) else {}
        if det.get("tag") in m.get("tags", []) and det.get("decoder") in m.get("decoders", []) and any(str(w.get("suite", "")).startswith(pfx) for pfx in m.get("suite_prefixes", [])):
            return f
    return None


# --------------------------------------------------------------------------------------------- deciding
def clause_text(vr, ref):
    return vr["main"]["clauses"].get(ref, "")


def expand_refs(vr, refs, exclude=()):
    """('fn','*') -> all labelled clauses of fn (minus excluded labels)"""
    out = []
    allc = vr["main"]["clauses"]
    for fn, lab in refs:
        if lab == "*":
            got = [k for k in allc if k.split("|")[0] == fn and not k.endswith("|__vacuity") and k.split("|")[1] not in exclude]
            if not got and fn in vr["main"]["contracted"]:
                continue   # function under contract through trait-level clauses only
            if not got and fn not in vr["main"]["contracted"]:
                out.append(f"{fn}|<missing>")
            out += got
        else:
            out.append(f"{fn}|{lab}")
    return out


def property_generators(P):
    gens = []
    for a in P["alternatives"]:
        gens += a.get("replay", [])
    if P.get("witness"):
        gens.append(P["witness"])
    gens += P.get("extra_generators", [])
    return list(dict.fromkeys(gens))


def tree_differs(main):
    """why the tree is not the verified baseline (None if it is): used only to decide whether to run the generators as a safety net"""
    if main["failed_clauses"]:
        return "failing clause " + sorted(main["failed_clauses"])[0]
    if main["failed_fns"]:
        return "failing body obligation in " + sorted(main["failed_fns"])[0]
    if main["failed_theorems"]:
        return "failing theorem " + sorted(main["failed_theorems"])[0]
    refused = [k for k in main["refused"] if k not in refused_baseline()]
    if refused:
        return "function outside the extraction rules: " + sorted(refused)[0]
    new_fns = [k for k in main["uncontracted"] if "[From<" not in k and k not in refused_baseline()] + list(main.get("auto_contracts", []))
    if new_fns:
        return "function new to the tree: " + new_fns[0]
    if main.get("lost_contracts"):
        return "function removed: " + main["lost_contracts"][0]
    if main.get("serde_attrs_differ"):
        return "serde attributes differ from the verified baseline: " + main["serde_attrs_differ"]
    bp = os.path.join(VERIF, "verus", "baseline_files.json")
    if os.path.exists(bp):
        for rel, h in json.load(open(bp)).items():
            fp = os.path.join(vxlib.REPO, rel)
            if not os.path.exists(fp) or hashlib.sha256(open(fp, "rb").read()).hexdigest() != h:
                return "file looked at by Kani / anchors only has changed: " + rel
    return None


def refused_baseline():
    """functions that are outside the extraction rules on the verified baseline itself (verus/anchors.json `refused_baseline`): never under
    contract, never counted as proved, named in every evidence file; what they do is probed on the real code (replay c10serde, every C10 run)"""
    ap = os.path.join(VERIF, "verus", "anchors.json")
    return json.load(open(ap)).get("refused_baseline", []) if os.path.exists(ap) else []


def search_witness(P):
    """run the property's generators on the REAL code (concrete execution); returns (witness or None, log)"""
    wit_log = []
    for g in property_generators(P):
        r = run_replay(["witness", g])
        wit_log.append({k: v for k, v in r.items() if k != "witness"} if isinstance(r, dict) else r)
        if isinstance(r, dict) and r.get("found"):
            return r, g, wit_log
    return None, None, wit_log


def fallback_undecided(pid, tier, seed, P, reason, t0):
    """the deductive route cannot decide (extraction refusal, lost anchor, type error, rlimit ...).  Never an alarm by itself:
    the property's generators are run on the real code; only a CONCRETE failing input is reported as a violation."""
    wit, gen, wit_log = search_witness(P)
    if wit:
        path = write_replay_doc(pid, tier, [{"alternative": "-", "kind": "replay", "obligation": f"replay::{gen}", "clause_text": "", "verifier_output":
                                            "deductive route undecided (" + reason[:500] + "); violation found by concrete execution of the real code"}], wit, gen, wit_log, None)
        write_undecided(pid, tier, seed, reason + " ; violation found by concrete execution: " + json.dumps(wit.get("witness"))[:800], t0, violations=1)
        log(f"  deductive route undecided: {reason[:300]}")
        log(f"  concrete failing input found by replay generator {gen}")
        log(f"VIOLATION property={pid} replay={path}")
        return 1
    log(f"UNDECIDED property={pid} reason={reason[:1800]} ; no failing input found by {property_generators(P)} on the real code")
    write_undecided(pid, tier, seed, reason, t0)
    return 2


def check_property(pid, tier, seed):
    t0 = time.time()
    P = vxprops.PROPS[pid]
    os.makedirs(EVID, exist_ok=True)
    os.makedirs(REPLAYS, exist_ok=True)
    evid_path = os.path.join(EVID, pid + ".json")
    try:
        vr = verus_results(tier)
    except vxlib.Undecided as e:
        return fallback_undecided(pid, tier, seed, P, str(e), t0)
    main, vac = vr["main"], vr["vacuity"]
    # ---- global problems: never an alarm by themselves
    problems = []
    if main["no_output"]:
        problems.append("verus produced no result: " + main["stderr_tail"])
    if main["hard"]:
        problems.append("generated text does not type-check / unsupported construct (outside function bodies): " + main["hard"][0][:1200])
    if main["lost_anchors"]:
        problems.append("lost anchors: " + ", ".join(main["lost_anchors"]))
    if main["assumptions_outside_prelude"]:
        problems.append("assume/admit/external_body outside the prelude: " + str(main["assumptions_outside_prelude"][:5]))
    if main["unsafe_seen"]:
        problems.append("unsafe code in extracted functions")
    if problems:
        return fallback_undecided(pid, tier, seed, P, " ; ".join(problems), t0)

    alt_reports = []
    unstable = []
    for alt in P["alternatives"]:
        nec_refs = expand_refs(vr, alt.get("clauses", []), alt.get("exclude", ()))
        # clauses labelled `dead_*` describe a branch no call site of the crate reaches (e.g. Input::iter on a label): a change there is not
        # observable through the API, so their failure alone is never a violation (supporting: decided on the real code)
        dead = [r for r in nec_refs if r.split("|", 1)[1].startswith("dead_")]
        nec_refs = [r for r in nec_refs if r not in dead]
        sup_refs = (set(expand_refs(vr, alt.get("supporting", []), alt.get("exclude", ()))) | set(dead)) - set(nec_refs)
        refs = nec_refs + sorted(sup_refs)
        # functions the alternative names, including those under contract through trait-level clauses only (no labelled clause of their own)
        needed_fns = sorted(set(r.split("|")[0] for r in refs) | set(f for f, _ in alt.get("clauses", [])) | set(f for f, _ in alt.get("supporting", [])))
        failed = []        # necessary obligations that failed verification: the violation
        supporting = []    # value / completeness clauses the proof goes through: their failure needs confirmation on the real code
        undecided = []
        for r in refs:
            fn, lab = r.split("|", 1)
            if fn in main["refused"]:
                undecided.append(f"function {fn} could not be verified ({'; '.join(main['refused'][fn])[:200]}): clause {lab} undecided")
            elif fn in main.get("lost_contracts", []):
                undecided.append(f"LOST-ANCHOR: function {fn} no longer exists in the tree (its contract has nothing to attach to)")
            elif lab == "<missing>":
                undecided.append(f"function {fn} is not under contract")
            elif fn in main["refused"]:
                undecided.append(f"function {fn} could not be verified ({'; '.join(main['refused'][fn])[:200]}): clause {lab} undecided")
            elif r not in main["clauses"]:
                undecided.append(f"LOST-ANCHOR: clause {r} not found in contracts/")
            elif r in main["failed_clauses"] and fn in main.get("calls_uncontracted", {}):
                # modular reasoning: nothing is known about a callee that has no contract (a function new to the tree), so this failure
                # says "needs contract", not "property broken" - decided on the real code instead
                undecided.append(f"clause {r} fails, but {fn} calls {', '.join(main['calls_uncontracted'][fn])} which has no contract (new function): undecided")
            elif r in main["failed_clauses"]:
                (supporting if r in sup_refs else failed).append(("clause", r, main["failed_clauses"][r][0]))
        # trait-level clauses (declared on the prelude trait, e.g. `r == Self::de_res(..)`) are necessary only where the alternative asks for
        # EVERY clause of the function ('*'); where it names specific labels, the rest of the function's contract is supporting
        nec_fns = set(f for f, lab in alt.get("clauses", []) if lab == "*")
        sup_fns = set(f for f, lab in alt.get("supporting", []) if lab == "*")
        for k, v in main["failed_clauses"].items():
            fn, lab = k.split("|", 1)
            if lab.startswith("trait:") and fn in nec_fns:
                failed.append(("clause", k, v[0]))
            elif lab.startswith("trait:") and fn in sup_fns:
                supporting.append(("clause", k, v[0]))
        for th in alt.get("theorems", []):
            if th not in main["theorem_names"]:
                undecided.append(f"LOST-ANCHOR: theorem {th} missing from verus/theorems.rs")
            elif th in main["failed_theorems"]:
                failed.append(("theorem", th, main["failed_theorems"][th][0]))
        if alt.get("body_of"):
            sel = alt["body_of"]
            for fn, msgs in main["failed_fns"].items():
                if sel == "*" or fn in sel:
                    if fn in main["uncontracted"] or fn in main.get("auto_contracts", []):
                        undecided.append(f"body obligation of {fn} fails, but {fn} is new to the tree and has no contract (its callers' preconditions are unknown): undecided")
                    elif fn in main.get("calls_uncontracted", {}):
                        undecided.append(f"body obligation of {fn} fails, but it calls {', '.join(main['calls_uncontracted'][fn])} which has no contract (new function): undecided")
                    elif fn in main.get("panic_fns", {}):
                        # overflow / out-of-range / failed unwrap / reachable unreachable!() / a library panic condition
                        failed.append(("body", fn, main["panic_fns"][fn][0]))
                    else:
                        # a proof step or a value precondition inside the body no longer goes through: not a panic by itself
                        supporting.append(("body", fn, msgs[0]))
            for fn in main["refused"]:
                if fn in refused_baseline():
                    continue      # outside the extraction rules on the verified baseline too: listed as unverified in the evidence, probed by replay
                if sel == "*" or fn in sel:
                    undecided.append(f"function {fn} could not be verified ({'; '.join(main['refused'][fn])[:200]}): panic-freedom undecided")
        if main.get("serde_attrs_differ") and P.get("needs_serde_premise"):
            undecided.append("the premise 'derived serde impls are field-wise' is lost (serde attributes changed: " + main["serde_attrs_differ"][:200] + ")")
        for rl in main["rlimit"]:
            undecided.append("rlimit: " + rl[:300])
        if vac["hard"] and not main["hard"]:
            undecided.append("the vacuity twin does not type-check although the main file does (a bug of the twin generator, not of the code): " + vac["hard"][0][:300])
        for fn in needed_fns:
            if vac["hard"]:
                break
            if fn in main["contracted"] and f"{fn}|__vacuity" in vac["clause_lines"] and f"{fn}|__vacuity" not in vac["failed_clauses"] and fn not in vac.get("refused", {}):
                undecided.append(f"VACUOUS: `ensures false` verified for the twin of {fn} (contradictory contract or prelude)")
        for th in alt.get("theorems", []):
            if th in vxprops.VACUITY_THEOREMS and (th + "__vac") not in vac["theorem_names"]:
                undecided.append(f"LOST-ANCHOR: theorem {th} has no //@vacuity marker")
            elif th in vxprops.VACUITY_THEOREMS and (th + "__vac") not in vac["failed_theorems"] and not vac["hard"]:
                undecided.append(f"VACUOUS: theorem {th} proves false (unsatisfiable hypotheses)")
        for srun in vr.get("seeds", []):
            if srun["no_output"] or srun["hard"]:
                undecided.append("re-run under another SMT seed produced no result: " + (srun["stderr_tail"] or str(srun["hard"][:1]))[:300])
                continue
            x = set(srun["failed_clauses"]) | set(srun["failed_theorems"])
            y = set(main["failed_clauses"]) | set(main["failed_theorems"])
            for d in (x ^ y):
                if d.split("|")[0] in needed_fns or d in alt.get("theorems", []):
                    unstable.append(d)
        kani_items = list(alt.get("kani", {}).get("quick", []))
        if tier == "thorough":
            kani_items += alt.get("kani", {}).get("thorough", [])
        # every harness of the quick tier finishes within 100 s on the unchanged tree; a harness that needs more than 10 minutes on a changed
        # tree has left the solver's reach (undecided, decided on the real code), it is not waited for
        kres = run_kani_many(kani_items, timeout=(600 if tier == "quick" else 1800)) if kani_items else []
        for kr in kres:
            if kr["status"] == "failure":
                failed.append(("kani", f"{kr['crate']}::{kr['harness']}", "; ".join(kr["failed_checks"]) or kr["tail"][-600:]))
            elif kr["status"] != "success":
                undecided.append(f"kani {kr['crate']}::{kr['harness']} did not complete: " + kr["tail"][-400:])
        rres = []
        if tier == "thorough":
            # the thorough tier also runs the property's generators on the real code (testing, reported as such): the alternative's own list,
            # and for the first alternative the property's witness generator
            gens = list(alt.get("replay", []))
            if alt is P["alternatives"][0] and P.get("witness") and P["witness"] not in gens:
                gens.append(P["witness"])
            for g in gens:
                rr = run_replay(["witness", g])
                rres.append({k: v for k, v in rr.items() if k != "witness"} if isinstance(rr, dict) else rr)
                if rr.get("found"):
                    failed.append(("replay", f"replay::{g}", json.dumps(rr.get("witness"))[:1500]))
                elif rr.get("error"):
                    undecided.append(f"replay {g}: {rr['error'][:300]}")
        alt_reports.append({"name": alt["name"], "replay": rres, "refs": refs, "theorems": alt.get("theorems", []), "failed": failed, "supporting_failed": supporting,
                            "undecided": undecided, "kani": kres, "fns": needed_fns})

    # ---- verdict
    holds = any(not a["failed"] and not a["supporting_failed"] and not a["undecided"] for a in alt_reports) and not unstable
    known_lines, violations = [], []
    witness, gen, wit_log = None, None, None
    rc = 0
    if not holds:
        if all(a["failed"] for a in alt_reports) and not unstable:
            # every alternative has a NECESSARY obligation that passed on the unchanged tree and now fails verification
            for a in alt_reports:
                for kind, ob, msg in a["failed"]:
                    kf = known_match(pid, ob)
                    if kf:
                        known_lines.append((ob, kf))
                    else:
                        violations.append((a["name"], kind, ob, msg))
            if not violations:
                holds = True
            else:
                rc = 1
                witness, gen, wit_log = search_witness(P)
        else:
            # only supporting clauses failed / something is undecided: the proof no longer goes through, which is NOT yet a
            # violation (the contracts state more than this property).  Decide on the real code: a concrete failing input is a
            # violation; none found => undecided (exit 2), never an alarm.
            witness, gen, wit_log = search_witness(P)
            if witness:
                rc = 1
                for a in alt_reports:
                    for kind, ob, msg in (a["failed"] + a["supporting_failed"]):
                        violations.append((a["name"], kind, ob, msg))
                if not violations:
                    violations.append(("-", "replay", f"replay::{gen}", "violation found by concrete execution of the real code; deductive route undecided: "
                                       + " ; ".join(u for a in alt_reports for u in a["undecided"])[:800]))
            else:
                rc = 2
    # ---- safety net: the property's own obligations are all discharged, but the tree is not the one the contracts were written for
    # (some clause / body obligation / theorem fails somewhere, a function is refused or new, or a file that only Kani looks at changed).
    # The property's generators are then run on the real code as well: a concrete failing input is a violation; none found => the verdict stays OK.
    net_log = None
    if holds and rc == 0:
        why = tree_differs(main)
        if why:
            witness, gen, net_log = search_witness(P)
            if witness:
                holds, rc = False, 1
                violations.append(("-", "replay", f"replay::{gen}", "every listed obligation of this property is discharged, but the tree differs from the verified baseline ("
                                   + why[:300] + ") and the property's generator found a failing input on the real code"))
    # ---- generators that run on every check of this property (cheap probes of code no contract reaches: derived serde impls).  Their witnesses
    # are split into the ones a `known` finding lists (exact generator, decoder, tag byte, suite family) and new ones; only new ones are violations
    for g in P.get("always_generators", []):
        rr = run_replay(["witness", g])
        if not isinstance(rr, dict) or rr.get("error"):
            if holds and rc == 0:
                holds, rc = False, 2
                log(f"UNDECIDED property={pid} reason=generator {g} did not run: " + str((rr or {}).get("error"))[:300])
            continue
        new_w = []
        for w in rr.get("witness", []):
            kf = known_witness(pid, g, w)
            if kf:
                if not any(k.get("id") == kf.get("id") for _, k in known_lines):
                    known_lines.append((f"replay::{g}", kf))
            else:
                new_w.append(w)
        if new_w and rc != 1:
            holds, rc = False, 1
            witness, gen = dict(rr, witness=new_w), g
            violations.append(("-", "replay", f"replay::{g}", "concrete failing input on the real code, not among the known findings: " + json.dumps(new_w[:3])[:1200]))
    replay_path = None
    if holds:
        for ob, kf in known_lines:
            log(f"KNOWN-FINDING: property={pid} {kf.get('what', ob)}")
    if rc == 1:
        docs = [{"alternative": v[0], "kind": v[1], "obligation": v[2], "clause_text": main["clauses"].get(v[2], ""), "verifier_output": v[3]} for v in violations]
        replay_path = write_replay_doc(pid, tier, docs, witness, gen, wit_log, main["path"])
    write_evidence(pid, tier, seed, P, vr, alt_reports, holds, violations, known_lines, unstable, t0, evid_path, rc)
    if rc == 1:
        suffix = "" if witness else " no-failing-input-found"
        for v in violations[:6]:
            log(f"  failed obligation [{v[1]}] {v[2]}")
        if witness:
            log(f"  concrete failing input found on the real code by replay generator {gen}")
        log(f"VIOLATION property={pid} replay={replay_path}{suffix}")
    elif rc == 2:
        reasons = [f"supporting clause failed: {f[1]}" for a in alt_reports for f in a["supporting_failed"]] + [u for a in alt_reports for u in a["undecided"]] + [f"unstable: {u}" for u in unstable]
        log(f"UNDECIDED property={pid} reason=" + " ; ".join(dict.fromkeys(reasons))[:2000] + f" ; no failing input found by {property_generators(P)} on the real code")
    else:
        n_ob = sum(len(a["refs"]) + len(a["theorems"]) + len(a["kani"]) for a in alt_reports if not a["failed"] and not a["undecided"] and not a["supporting_failed"])
        if any(a.get("body_of") for a in P["alternatives"]):
            n_ob += len(main["contracted"])
        log(f"OK property={pid} tier={tier} obligations={n_ob} verus_wall={main['wall']:.1f}s cache_hit={vr.get('cache_hit')} total={time.time()-t0:.1f}s")
    return rc


# --------------------------------------------------------------------------------------------- witness / replay files
def write_replay_doc(pid, tier, failed_docs, witness, gen, wit_log, generated_file):
    n = len(glob.glob(os.path.join(REPLAYS, pid + "-*.json")))
    path = os.path.join(REPLAYS, f"{pid}-{n:03d}.json")
    doc = {
        "property": pid, "tier": tier,
        "failed_obligations": failed_docs,
        "witness": witness, "witness_search": wit_log if witness is None else None,
        "witness_generator": gen or (property_generators(vxprops.PROPS[pid]) or [None])[0],
        "replay_cmd": f"bin/check replay {path}",
        "note": "Verus gives no counterexample; the witness was found by running the registered generator on the real code (concrete execution)" if witness else
                "no-failing-input-found: the obligation above passed on the unchanged tree and now fails verification; verifier output attached",
        "generated_file": generated_file,
    }
    json.dump(doc, open(path, "w"), indent=1)
    return path


def replay(path):
    doc = json.load(open(path))
    pid = doc["property"]
    log(f"replay of {path}: property {pid}")
    for f in doc["failed_obligations"]:
        log(f"  failed obligation [{f['kind']}] {f['obligation']}")
        if f.get("clause_text"):
            log("    " + f["clause_text"].replace("\n", "\n    "))
    wit = doc.get("witness")
    if wit and doc.get("witness_generator"):
        r = run_replay(["witness", doc["witness_generator"]])
        if r.get("found"):
            log("  witness reproduced on the real code: " + json.dumps(r.get("witness"))[:1500])
            log(f"VIOLATION property={pid} replay={path}")
            return 1
        log("  witness NOT reproduced on the current tree: " + json.dumps(r)[:600])
        return 0
    # no concrete witness: re-run the check and report whether the obligation still fails
    rc = check_property(pid, doc.get("tier", "quick"), 0)
    return rc


# --------------------------------------------------------------------------------------------- evidence
def write_undecided(pid, tier, seed, reason, t0, violations=0):
    ev = {
        "property_id": pid, "tier": tier, "seed": seed, "level": "proof",
        "coverage": {"obligations": 0, "discharged": 0, "checker_cmd": "verus (not reached)", "trusted_base": [], "evaluations": 1, "distinct_nontrivial": 0,
                     "explanation": "UNDECIDED: " + reason[:3000], "samples": [reason[:500]]},
        "assumptions": [], "wall_s": time.time() - t0, "violations": violations,
    }
    json.dump(ev, open(os.path.join(EVID, pid + ".json"), "w"), indent=1)


def write_evidence(pid, tier, seed, P, vr, alt_reports, holds, violations, known_lines, unstable, t0, path, rc=0):
    main, vac = vr["main"], vr["vacuity"]
    best = None
    for a in alt_reports:
        if not a["failed"] and not a["undecided"] and not a["supporting_failed"]:
            best = a
            break
    rep = best or alt_reports[0]
    obligations = []
    for r in rep["refs"]:
        fn = r.split("|")[0]
        short = "opaque_verif::x_" + fn.split("::")[0]
        tm = None
        for k, v in main["fn_times"].items():
            if k.endswith("::" + "::".join(fn.split("::")[1:])) or k.endswith(fn.split("::")[-1]):
                if fn.split("::")[-1] in k and (len(fn.split("::")) < 3 or fn.split("::")[-2] in k):
                    tm = v
        obligations.append({"obligation": r, "backend": "Verus 0.2026.09.13 + Z3", "verdict": "failed" if r in main["failed_clauses"] else ("undecided" if fn in main.get("refused", {}) else "discharged"),
                            "text": main["clauses"].get(r, ""), "fn_smt_ms": (tm or {}).get("ms"), "fn_rlimit": (tm or {}).get("rlimit")})
    body_sel = None
    for a in P["alternatives"]:
        if a["name"] == rep["name"]:
            body_sel = a.get("body_of")
    if body_sel:
        # one obligation per function body: Verus' built-in checks (no overflow, no out-of-range slice / index, no failed unwrap, no reachable
        # unreachable!(), every library panic condition = shim precondition) discharged for all inputs
        for fn in sorted(main["contracted"]):
            if body_sel != "*" and fn not in body_sel:
                continue
            verdict = "failed" if fn in main.get("panic_fns", {}) else ("undecided" if (fn in main["failed_fns"] or fn in main.get("refused", {})) else "discharged")
            obligations.append({"obligation": f"body {fn}: panic-freedom", "backend": "Verus 0.2026.09.13 + Z3", "verdict": verdict})
    for th in rep["theorems"]:
        tm = None
        for k, v in main["fn_times"].items():
            if k.endswith("::" + th):
                tm = v
        obligations.append({"obligation": "theorem " + th, "backend": "Verus 0.2026.09.13 + Z3", "verdict": "failed" if th in main["failed_theorems"] else "discharged",
                            "fn_smt_ms": (tm or {}).get("ms"), "fn_rlimit": (tm or {}).get("rlimit")})
    for kr in rep["kani"]:
        obligations.append({"obligation": f"kani {kr['crate']}::{kr['harness']}", "backend": "Kani 0.68 + CBMC 6.11", "verdict": {"success": "discharged", "failure": "failed"}.get(kr["status"], "undecided"),
                            "wall_s": kr["wall"], "cache_hit": kr.get("cache_hit"), "stubs": kr.get("stubs"), "bound": vxprops.KANI_BOUNDS.get(kr["harness"], "none (loop-free / full domain)")})
    n_ob = len(obligations)
    n_dis = sum(1 for o in obligations if o["verdict"] == "discharged")
    samples = [{"obligation": o["obligation"], "text": o.get("text", "")[:700], "verdict": o["verdict"]} for o in obligations[:6]]
    bounded = [o for o in obligations if o.get("bound") and not o["bound"].startswith("none")]
    trusted = [
        "Verus 0.2026.09.13 + Z3; Kani 0.68 + CBMC 6.11; rustc",
        "extractor rules R1-R14 (DESIGN.md 2.2), applied this run: " + json.dumps(main["rules_applied"]),
        f"verus/prelude.rs: assumed contracts of generic-array/typenum, digest/hmac/hkdf, rand_core, subtle, voprf and the trait-level KeGroup/SecretKey/Ksf contracts ({main['prelude_assumptions']} external_body/admit/assume_specification items)",
        "verus/spec_rfc.rs: transcription of RFC 9807 / RFC 9497 formulas (oracle)",
        "R12: derived Clone impls are field-wise; R9: CS::KeyExchange = TripleDh (sealed trait)",
        "functions whose contract Verus assumes (`assume_external` in contracts/*.vc; body outside the extraction rules): " + (", ".join(main["external"]) or "none")
        + " — serialization::i2osp is proved by Kani (leaf::i2osp_u1_exact, i2osp_u2_exact: loop-free, all usize) for L = U1, U2, the only instantiations (anchor i2osp_instantiations)",
        "items dropped by extraction (not modelled): " + "; ".join(main["dropped"] or []),
        "functions outside the extraction rules on the baseline (NOT verified, no contract; serde deserialize_with adaptors added by the D6 repair, body = "
        "read ElemLen bytes through serde, then call the verified native canonical decoder; exercised on the real code by replay c10serde on every C10 run: "
        "256 leading bytes x 20 suites x 6 decoders, concrete testing, not proof): " + (", ".join(k for k in main.get("refused", {}) if k in refused_baseline()) or "none"),
    ]
    ev = {
        "property_id": pid, "tier": tier, "seed": seed, "level": "proof",
        "coverage": {
            "obligations": max(n_ob, 1), "discharged": n_dis if n_ob else 0,
            "checker_cmd": main["cmd"] + "   (vacuity twin: " + vac["cmd"] + ")",
            "trusted_base": trusted,
            "samples": samples or [{"note": "no obligations"}],
            "alternatives": [{"name": a["name"], "obligations": len(a["refs"]) + len(a["theorems"]) + len(a["kani"]), "failed": [f[1] for f in a["failed"]],
                              "supporting_failed": [f[1] for f in a["supporting_failed"]], "undecided": a["undecided"], "replay": a.get("replay")} for a in alt_reports],
            "verdict": {0: "holds", 1: "violation", 2: "undecided"}[rc],
            "functions_refused": main.get("refused", {}),
            "deciding_alternative": rep["name"],
            "functions_under_contract": rep["fns"],
            "functions_under_contract_total": len(main["contracted"]), "functions_without_contract": main["uncontracted"], "functions_assumed_external": main["external"],
            "functions_with_generated_contract": main.get("auto_contracts", []),
            "obligation_list": obligations,
            "verus": {"verified_fns": main["verified"], "errors": main["errors"], "wall_s": main["wall"], "smt_ms_total": main["smt_ms"], "cache_hit": vr.get("cache_hit", False),
                      "vacuity_twin": {"functions_whose_false_clause_failed_as_required": sum(1 for k in vac["failed_clauses"] if k.endswith("|__vacuity")), "wall_s": vac["wall"]}},
            "bounded_items": [{"obligation": o["obligation"], "bound": o["bound"]} for o in bounded],
            "unstable_obligations": unstable,
            "known_findings_reported": [k for k, _ in known_lines],
            "explanation": P.get("explanation", ""),
            "exhaustive": False,
        },
        "assumptions": P.get("assumptions", []) + P.get("hypotheses", []),
        "wall_s": time.time() - t0,
        "violations": len(violations),
    }
    json.dump(ev, open(path, "w"), indent=1)
