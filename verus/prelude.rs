// =====================================================================================================
// PRELUDE — assumed contracts of opaque-ke's dependencies (TRUSTED; every item here is an assumption)
//
// generic-array / typenum, digest / hmac / hkdf, rand_core, subtle, voprf, and the trait-level
// contracts of the four traits that opaque-ke declares itself (KeGroup, SecretKey, Ksf, CipherSuite;
// their declarations are anchor-checked against /repo by the extractor, rule R14).
// Everything is *functional*: results are spec functions of the arguments.  No injectivity or
// collision-freedom is asserted here (see DESIGN.md 2.7) — those are explicit hypotheses of theorems.
// =====================================================================================================

// ---------------------------------------------------------------------------------- typenum lengths
pub trait ArrayLength<T>: Sized {
    spec fn n() -> nat;
    const USIZE: usize;
}
/// a length is well-formed when its run-time constant equals its type-level value and it is small
/// enough that sums of a handful of them cannot overflow `usize` (all real suite lengths are <= 133)
pub open spec fn wf_len<L: ArrayLength<u8>>() -> bool {
    L::USIZE as nat == L::n() && L::n() <= 0xFFFF
}
pub struct U0;
impl ArrayLength<u8> for U0 { open spec fn n() -> nat { 0 } const USIZE: usize = 0; }
impl vstd::std_specs::convert::FromSpecImpl<[u8; 0]> for GenericArray<u8, U0> {
    open spec fn obeys_from_spec() -> bool { true }
    open spec fn from_spec(a: [u8; 0]) -> Self { ga_of_seq::<U0>(a@) }
}
impl core::convert::From<[u8; 0]> for GenericArray<u8, U0> {
    #[verifier::external_body]
    fn from(a: [u8; 0]) -> (r: Self) { unimplemented!() }
}
pub struct U1;
impl ArrayLength<u8> for U1 { open spec fn n() -> nat { 1 } const USIZE: usize = 1; }
impl vstd::std_specs::convert::FromSpecImpl<[u8; 1]> for GenericArray<u8, U1> {
    open spec fn obeys_from_spec() -> bool { true }
    open spec fn from_spec(a: [u8; 1]) -> Self { ga_of_seq::<U1>(a@) }
}
impl core::convert::From<[u8; 1]> for GenericArray<u8, U1> {
    #[verifier::external_body]
    fn from(a: [u8; 1]) -> (r: Self) { unimplemented!() }
}
pub struct U2;
impl ArrayLength<u8> for U2 { open spec fn n() -> nat { 2 } const USIZE: usize = 2; }
impl vstd::std_specs::convert::FromSpecImpl<[u8; 2]> for GenericArray<u8, U2> {
    open spec fn obeys_from_spec() -> bool { true }
    open spec fn from_spec(a: [u8; 2]) -> Self { ga_of_seq::<U2>(a@) }
}
impl core::convert::From<[u8; 2]> for GenericArray<u8, U2> {
    #[verifier::external_body]
    fn from(a: [u8; 2]) -> (r: Self) { unimplemented!() }
}
pub struct U7;
impl ArrayLength<u8> for U7 { open spec fn n() -> nat { 7 } const USIZE: usize = 7; }
impl vstd::std_specs::convert::FromSpecImpl<[u8; 7]> for GenericArray<u8, U7> {
    open spec fn obeys_from_spec() -> bool { true }
    open spec fn from_spec(a: [u8; 7]) -> Self { ga_of_seq::<U7>(a@) }
}
impl core::convert::From<[u8; 7]> for GenericArray<u8, U7> {
    #[verifier::external_body]
    fn from(a: [u8; 7]) -> (r: Self) { unimplemented!() }
}
pub struct U9;
impl ArrayLength<u8> for U9 { open spec fn n() -> nat { 9 } const USIZE: usize = 9; }
impl vstd::std_specs::convert::FromSpecImpl<[u8; 9]> for GenericArray<u8, U9> {
    open spec fn obeys_from_spec() -> bool { true }
    open spec fn from_spec(a: [u8; 9]) -> Self { ga_of_seq::<U9>(a@) }
}
impl core::convert::From<[u8; 9]> for GenericArray<u8, U9> {
    #[verifier::external_body]
    fn from(a: [u8; 9]) -> (r: Self) { unimplemented!() }
}
pub struct U10;
impl ArrayLength<u8> for U10 { open spec fn n() -> nat { 10 } const USIZE: usize = 10; }
impl vstd::std_specs::convert::FromSpecImpl<[u8; 10]> for GenericArray<u8, U10> {
    open spec fn obeys_from_spec() -> bool { true }
    open spec fn from_spec(a: [u8; 10]) -> Self { ga_of_seq::<U10>(a@) }
}
impl core::convert::From<[u8; 10]> for GenericArray<u8, U10> {
    #[verifier::external_body]
    fn from(a: [u8; 10]) -> (r: Self) { unimplemented!() }
}
pub struct U13;
impl ArrayLength<u8> for U13 { open spec fn n() -> nat { 13 } const USIZE: usize = 13; }
impl vstd::std_specs::convert::FromSpecImpl<[u8; 13]> for GenericArray<u8, U13> {
    open spec fn obeys_from_spec() -> bool { true }
    open spec fn from_spec(a: [u8; 13]) -> Self { ga_of_seq::<U13>(a@) }
}
impl core::convert::From<[u8; 13]> for GenericArray<u8, U13> {
    #[verifier::external_body]
    fn from(a: [u8; 13]) -> (r: Self) { unimplemented!() }
}
pub struct U20;
impl ArrayLength<u8> for U20 { open spec fn n() -> nat { 20 } const USIZE: usize = 20; }
impl vstd::std_specs::convert::FromSpecImpl<[u8; 20]> for GenericArray<u8, U20> {
    open spec fn obeys_from_spec() -> bool { true }
    open spec fn from_spec(a: [u8; 20]) -> Self { ga_of_seq::<U20>(a@) }
}
impl core::convert::From<[u8; 20]> for GenericArray<u8, U20> {
    #[verifier::external_body]
    fn from(a: [u8; 20]) -> (r: Self) { unimplemented!() }
}
pub struct U32;
impl ArrayLength<u8> for U32 { open spec fn n() -> nat { 32 } const USIZE: usize = 32; }
impl vstd::std_specs::convert::FromSpecImpl<[u8; 32]> for GenericArray<u8, U32> {
    open spec fn obeys_from_spec() -> bool { true }
    open spec fn from_spec(a: [u8; 32]) -> Self { ga_of_seq::<U32>(a@) }
}
impl core::convert::From<[u8; 32]> for GenericArray<u8, U32> {
    #[verifier::external_body]
    fn from(a: [u8; 32]) -> (r: Self) { unimplemented!() }
}
pub struct U33;
impl ArrayLength<u8> for U33 { open spec fn n() -> nat { 33 } const USIZE: usize = 33; }
impl vstd::std_specs::convert::FromSpecImpl<[u8; 33]> for GenericArray<u8, U33> {
    open spec fn obeys_from_spec() -> bool { true }
    open spec fn from_spec(a: [u8; 33]) -> Self { ga_of_seq::<U33>(a@) }
}
impl core::convert::From<[u8; 33]> for GenericArray<u8, U33> {
    #[verifier::external_body]
    fn from(a: [u8; 33]) -> (r: Self) { unimplemented!() }
}

pub struct TSum<A, B>(PhantomData<A>, PhantomData<B>);
pub type Sum<A, B> = TSum<A, B>;
impl<A: ArrayLength<u8>, B: ArrayLength<u8>> ArrayLength<u8> for TSum<A, B> {
    open spec fn n() -> nat { A::n() + B::n() }
    #[verifier::external_body]
    const USIZE: usize = A::USIZE + B::USIZE;
}
/// typenum: `<Sum<A,B> as Unsigned>::USIZE == A::USIZE + B::USIZE` when representable
pub broadcast proof fn axiom_tsum_usize<A: ArrayLength<u8>, B: ArrayLength<u8>>()
    requires A::USIZE as nat == A::n(), B::USIZE as nat == B::n(), A::n() + B::n() <= usize::MAX,
    ensures #[trigger] TSum::<A, B>::USIZE as nat == A::n() + B::n(),
{ admit(); }

// ---------------------------------------------------------------------------------- generic-array
#[verifier::external_body]
#[verifier::accept_recursive_types(L)]
#[verifier::accept_recursive_types(T)]
pub struct GenericArray<T, L: ArrayLength<T>> { _l: PhantomData<(T, L)> }
impl<L: ArrayLength<u8>> View for GenericArray<u8, L> {
    type V = Seq<u8>;
    uninterp spec fn view(&self) -> Seq<u8>;
}
pub uninterp spec fn ga_of_seq<L: ArrayLength<u8>>(s: Seq<u8>) -> GenericArray<u8, L>;
pub broadcast proof fn axiom_ga_len<L: ArrayLength<u8>>(a: GenericArray<u8, L>)
    ensures #[trigger] a@.len() == L::n(),
{ admit(); }
pub broadcast proof fn axiom_ga_ext<L: ArrayLength<u8>>(a: GenericArray<u8, L>, b: GenericArray<u8, L>)
    requires #[trigger] a@ == #[trigger] b@,
    ensures a == b,
{ admit(); }
pub broadcast proof fn axiom_ga_of_seq<L: ArrayLength<u8>>(s: Seq<u8>)
    requires s.len() == L::n(),
    ensures (#[trigger] ga_of_seq::<L>(s))@ == s,
{ admit(); }
impl<L: ArrayLength<u8>> Clone for GenericArray<u8, L> {
    #[verifier::external_body]
    fn clone(&self) -> (r: Self) ensures r == *self { unimplemented!() }
}
impl<L: ArrayLength<u8>> Copy for GenericArray<u8, L> {}
pub open spec fn all_zero(s: Seq<u8>) -> bool { forall|i: int| 0 <= i < s.len() ==> s[i] == 0u8 }
impl<L: ArrayLength<u8>> GenericArray<u8, L> {
    #[verifier::external_body]
    pub fn default() -> (r: Self) ensures all_zero(r@) { unimplemented!() }
    #[verifier::external_body]
    pub fn concat<M: ArrayLength<u8>>(self, other: GenericArray<u8, M>) -> (r: GenericArray<u8, Sum<L, M>>)
        ensures r@ == self@ + other@
    { unimplemented!() }
    /// panics in generic-array when the lengths differ: precondition
    #[verifier::external_body]
    pub fn clone_from_slice(s: &[u8]) -> (r: Self)
        requires s@.len() == L::n(),
        ensures r@ == s@,
    { unimplemented!() }
    #[verifier::external_body]
    pub fn as_slice(&self) -> (r: &[u8]) ensures r@ == self@ { unimplemented!() }
    #[verifier::external_body]
    pub fn len(&self) -> (r: usize) ensures r as nat == L::n() { unimplemented!() }
}
impl<L: ArrayLength<u8>> core::ops::Deref for GenericArray<u8, L> {
    type Target = [u8];
    #[verifier::external_body]
    fn deref(&self) -> (r: &[u8]) ensures r@ == self@ { unimplemented!() }
}

// ---------------------------------------------------------------------------------- byte chunks
/// every `impl Iterator<Item = &[u8]>` of the source (rule R5): abstracted to its concatenation
#[verifier::external_body]
pub struct Chunks<'a> { _p: PhantomData<&'a ()> }
pub open spec fn flat_of(s: Seq<&[u8]>) -> Seq<u8>
    decreases s.len()
{
    if s.len() == 0 { Seq::<u8>::empty() } else { flat_of(s.drop_last()) + s.last()@ }
}
impl<'a> Chunks<'a> {
    /// the pieces still to come, in order (prophetic: what `next` is going to return)
    pub uninterp spec fn rest(&self) -> Seq<&'a [u8]>;
    /// their concatenation
    pub open spec fn flat(&self) -> Seq<u8> { flat_of(self.rest()) }
    #[verifier::external_body]
    pub fn of0() -> (r: Chunks<'a>) ensures r.flat() == Seq::<u8>::empty() { unimplemented!() }
    #[verifier::external_body]
    pub fn of1(a: &'a [u8]) -> (r: Chunks<'a>) ensures r.flat() == a@ { unimplemented!() }
    #[verifier::external_body]
    pub fn of2(a: &'a [u8], b: &'a [u8]) -> (r: Chunks<'a>) ensures r.flat() == a@ + b@ { unimplemented!() }
    #[verifier::external_body]
    pub fn of3(a: &'a [u8], b: &'a [u8], c: &'a [u8]) -> (r: Chunks<'a>) ensures r.flat() == a@ + b@ + c@ { unimplemented!() }
    #[verifier::external_body]
    pub fn of4(a: &'a [u8], b: &'a [u8], c: &'a [u8], d: &'a [u8]) -> (r: Chunks<'a>) ensures r.flat() == a@ + b@ + c@ + d@ { unimplemented!() }
    #[verifier::external_body]
    pub fn from_array<const N: usize>(a: &'a [&'a [u8]; N]) -> (r: Chunks<'a>)
        ensures
            // unrolled form for the one array length the crate uses (hkdf label pieces)
            N == 6 ==> r.flat() == a@[0]@ + a@[1]@ + a@[2]@ + a@[3]@ + a@[4]@ + a@[5]@,
    { unimplemented!() }
    #[verifier::external_body]
    pub fn chain(self, other: Chunks<'a>) -> (r: Chunks<'a>) ensures r.flat() == self.flat() + other.flat() { unimplemented!() }
    #[verifier::external_body]
    pub fn into_iter(self) -> (r: Chunks<'a>) ensures r.flat() == self.flat() { unimplemented!() }
}
/// the two generic chunk loops of src/serialization/mod.rs (`for bytes in iter`) are verified against this iterator model:
/// `next` yields the pieces of `rest()` one by one and then None (assumed of every `impl Iterator<Item = &[u8]>` the crate builds)
impl<'a> Iterator for Chunks<'a> {
    type Item = &'a [u8];
    #[verifier::external_body]
    fn next(&mut self) -> (r: Option<&'a [u8]>) { unimplemented!() }
}
impl<'a> vstd::std_specs::iter::IteratorSpecImpl for Chunks<'a> {
    open spec fn obeys_prophetic_iter_laws(&self) -> bool { true }
    open spec fn remaining(&self) -> Seq<&'a [u8]> { self.rest() }
    open spec fn will_return_none(&self) -> bool { true }
    open spec fn decrease(&self) -> Option<nat> { Some(self.rest().len()) }
    open spec fn peek(&self, i: int) -> Option<&'a [u8]> { if 0 <= i < self.rest().len() { Some(self.rest()[i]) } else { None } }
}
/// `digest::Update` / `hmac::Mac` as far as the two loops use them: absorbing bytes appends them to the message
pub trait Update: Sized {
    spec fn absorbed(&self) -> Seq<u8>;
    fn update(&mut self, data: &[u8]) ensures final(self).absorbed() == old(self).absorbed() + data@;
    fn chain(self, data: &[u8]) -> (r: Self) ensures r.absorbed() == self.absorbed() + data@;
}
pub trait Mac: Sized {
    spec fn absorbed(&self) -> Seq<u8>;
    fn update(&mut self, data: &[u8]) ensures final(self).absorbed() == old(self).absorbed() + data@;
}
/// `Iterator<Item = &u8>` in the two XOR loops (rule R6)
#[verifier::external_body]
pub struct Bytes<'a> { _p: PhantomData<&'a ()> }
impl<'a> Bytes<'a> {
    pub uninterp spec fn seq(&self) -> Seq<u8>;
    #[verifier::external_body]
    pub fn of(a: &'a [u8]) -> (r: Bytes<'a>) ensures r.seq() == a@ { unimplemented!() }
    #[verifier::external_body]
    pub fn chain(self, other: Bytes<'a>) -> (r: Bytes<'a>) ensures r.seq() == self.seq() + other.seq() { unimplemented!() }
    #[verifier::external_body]
    pub fn flatten(c: Chunks<'a>) -> (r: Bytes<'a>) ensures r.seq() == c.flat() { unimplemented!() }
}
/// `for (a, b) in X.iter_mut().zip(Y) { *a ^= b }` — zip stops at the shorter side
pub open spec fn xor_zip(a: Seq<u8>, b: Seq<u8>) -> Seq<u8> {
    Seq::new(a.len(), |i: int| if i < b.len() { a[i] ^ b[i] } else { a[i] })
}
#[verifier::external_body]
pub fn xor_into<L: ArrayLength<u8>>(dst: &mut GenericArray<u8, L>, src: Bytes<'_>)
    ensures final(dst)@ == xor_zip(old(dst)@, src.seq()),
{ unimplemented!() }

// R8 shims
pub trait ToBe { type Out; fn to_be_bytes_v(self) -> Self::Out; }
impl ToBe for u16 {
    type Out = [u8; 2];
    #[verifier::external_body]
    fn to_be_bytes_v(self) -> (r: [u8; 2]) ensures r@ == seq![(self / 256) as u8, (self % 256) as u8] { self.to_be_bytes() }
}
impl ToBe for u8 {
    type Out = [u8; 1];
    #[verifier::external_body]
    fn to_be_bytes_v(self) -> (r: [u8; 1]) ensures r@ == seq![self] { self.to_be_bytes() }
}
pub assume_specification<T>[ <T as core::convert::From<T>>::from ](t: T) -> (r: T) ensures r == t;
/// `a == b` on byte slices (rule R8.slice_eq): element-wise equality
#[verifier::external_body]
pub fn slice_eq(a: &[u8], b: &[u8]) -> (r: bool) ensures r == (a@ == b@) { a == b }

// ---------------------------------------------------------------------------------- digest / hmac / hkdf
pub trait AsBytes { spec fn bytes(&self) -> Seq<u8>; }
impl<'a> AsBytes for &'a [u8] { open spec fn bytes(&self) -> Seq<u8> { (*self)@ } }
impl<L: ArrayLength<u8>> AsBytes for GenericArray<u8, L> { open spec fn bytes(&self) -> Seq<u8> { self@ } }
impl<'a, L: ArrayLength<u8>> AsBytes for &'a GenericArray<u8, L> { open spec fn bytes(&self) -> Seq<u8> { (*self)@ } }

pub trait Digest: Sized {
    type OutputSize: ArrayLength<u8>;
    spec fn h(m: Seq<u8>) -> Seq<u8>;
    spec fn hmac(key: Seq<u8>, msg: Seq<u8>) -> Seq<u8>;
    spec fn extract(salt: Seq<u8>, ikm: Seq<u8>) -> Seq<u8>;
    spec fn expand(prk: Seq<u8>, info: Seq<u8>, len: nat) -> Seq<u8>;
    spec fn msg(&self) -> Seq<u8>;
    fn new() -> (r: Self) ensures r.msg() == Seq::<u8>::empty();
    fn chain<B: AsBytes>(self, data: B) -> (r: Self) ensures r.msg() == self.msg() + data.bytes();
    fn chain_iter<'a>(self, it: Chunks<'a>) -> (r: Self) ensures r.msg() == self.msg() + it.flat();
    fn update<B: AsBytes>(&mut self, data: B) ensures final(self).msg() == old(self).msg() + data.bytes();
    fn clone(&self) -> (r: Self) ensures r.msg() == self.msg();
    fn finalize(self) -> (r: GenericArray<u8, Self::OutputSize>) ensures r@ == Self::h(self.msg());
    /// hash output lengths: 32, 48 or 64 for every supported suite (assumed: at least 32); voprf demands < 256
    proof fn lemma_hash_len() ensures wf_len::<Self::OutputSize>(), 32 <= Self::OutputSize::n() <= 255;
    /// output lengths of the primitives
    proof fn lemma_expand_len(prk: Seq<u8>, info: Seq<u8>, len: nat) ensures Self::expand(prk, info, len).len() == len;
    proof fn lemma_h_len(m: Seq<u8>) ensures Self::h(m).len() == Self::OutputSize::n();
    proof fn lemma_hmac_len(k: Seq<u8>, m: Seq<u8>) ensures Self::hmac(k, m).len() == Self::OutputSize::n();
    proof fn lemma_extract_len(s: Seq<u8>, i: Seq<u8>) ensures Self::extract(s, i).len() == Self::OutputSize::n();
}
pub trait Hash: Digest {}
pub type Output<D> = GenericArray<u8, <D as Digest>::OutputSize>;
pub type OutputSize<D> = <D as Digest>::OutputSize;

pub struct InvalidLength;
pub struct MacError;
pub struct InvalidPrkLength;

pub struct Hmac<D: Hash> { pub ghost key: Seq<u8>, pub ghost msg: Seq<u8>, pub _d: PhantomData<D> }
pub struct CtOutput<D: Hash> { pub ghost bytes: Seq<u8>, pub _d: PhantomData<D> }
impl<D: Hash> CtOutput<D> {
    #[verifier::external_body]
    pub fn into_bytes(self) -> (r: Output<D>) ensures r@ == self.bytes { unimplemented!() }
}
impl<D: Hash> Hmac<D> {
    /// HMAC accepts keys of any length
    #[verifier::external_body]
    pub fn new_from_slice(key: &[u8]) -> (r: Result<Self, InvalidLength>)
        ensures r is Ok, r->Ok_0.key == key@, r->Ok_0.msg == Seq::<u8>::empty()
    { unimplemented!() }
    #[verifier::external_body]
    pub fn update(&mut self, data: &[u8])
        ensures final(self).key == old(self).key, final(self).msg == old(self).msg + data@
    { unimplemented!() }
    #[verifier::external_body]
    pub fn update_iter<'a>(&mut self, it: Chunks<'a>)
        ensures final(self).key == old(self).key, final(self).msg == old(self).msg + it.flat()
    { unimplemented!() }
    #[verifier::external_body]
    pub fn finalize(self) -> (r: CtOutput<D>) ensures r.bytes == D::hmac(self.key, self.msg) { unimplemented!() }
    /// constant-time comparison of the full tag
    #[verifier::external_body]
    pub fn verify(self, tag: &GenericArray<u8, D::OutputSize>) -> (r: Result<(), MacError>)
        ensures r is Ok <==> tag@ == D::hmac(self.key, self.msg)
    { unimplemented!() }
}

#[verifier::external_body]
#[verifier::accept_recursive_types(D)]
pub struct Hkdf<D: Hash> { _d: PhantomData<D> }
impl<D: Hash> Hkdf<D> {
    pub uninterp spec fn prk(&self) -> Seq<u8>;
    /// hkdf 0.12: Err iff the PRK is shorter than the hash output
    #[verifier::external_body]
    pub fn from_prk(prk: &[u8]) -> (r: Result<Hkdf<D>, InvalidPrkLength>)
        ensures r is Ok <==> prk@.len() >= D::OutputSize::n(), r is Ok ==> r->Ok_0.prk() == prk@
    { unimplemented!() }
    /// hkdf 0.12: Err iff the output is longer than 255 * HashLen
    #[verifier::external_body]
    pub fn expand<L: ArrayLength<u8>>(&self, info: &[u8], okm: &mut GenericArray<u8, L>) -> (r: Result<(), InvalidLength>)
        ensures r is Ok <==> L::n() <= 255 * D::OutputSize::n(), r is Ok ==> final(okm)@ == D::expand(self.prk(), info@, L::n())
    { unimplemented!() }
    #[verifier::external_body]
    pub fn expand_multi_info<'a, L: ArrayLength<u8>>(&self, infos: Chunks<'a>, okm: &mut GenericArray<u8, L>) -> (r: Result<(), InvalidLength>)
        ensures r is Ok <==> L::n() <= 255 * D::OutputSize::n(), r is Ok ==> final(okm)@ == D::expand(self.prk(), infos.flat(), L::n())
    { unimplemented!() }
    #[verifier::external_body]
    pub fn clone(&self) -> (r: Self) ensures r == *self { unimplemented!() }
}
pub struct HkdfExtract<D: Hash> { pub ghost salt: Seq<u8>, pub ghost ikm: Seq<u8>, pub _d: PhantomData<D> }
impl<D: Hash> HkdfExtract<D> {
    /// `None` salt = HashLen zero bytes inside HKDF; kept symbolic as the empty salt argument of `extract`
    #[verifier::external_body]
    pub fn new(salt: Option<&[u8]>) -> (r: Self)
        ensures r.ikm == Seq::<u8>::empty(), r.salt == (match salt { Some(s) => s@, None => Seq::<u8>::empty() })
    { unimplemented!() }
    #[verifier::external_body]
    pub fn input_ikm(&mut self, ikm: &[u8])
        ensures final(self).salt == old(self).salt, final(self).ikm == old(self).ikm + ikm@
    { unimplemented!() }
    #[verifier::external_body]
    pub fn finalize(self) -> (r: (Output<D>, Hkdf<D>))
        ensures r.0@ == D::extract(self.salt, self.ikm), r.1.prk() == r.0@
    { unimplemented!() }
}

// ---------------------------------------------------------------------------------- rand_core
/// the caller's generator: a tape (id) and a read position; `tape(id, pos, len)` are the bytes read
pub uninterp spec fn tape(id: int, pos: nat, len: nat) -> Seq<u8>;
pub trait RngCore: Sized {
    spec fn id(&self) -> int;
    spec fn pos(&self) -> nat;
    /// (rand_core's signature takes `&mut [u8]`; every call site in opaque-ke passes a `&mut GenericArray`)
    fn fill_bytes<L: ArrayLength<u8>>(&mut self, dest: &mut GenericArray<u8, L>)
        ensures
            final(dest)@ == tape(old(self).id(), old(self).pos(), L::n()),
            final(self).id() == old(self).id(),
            final(self).pos() == old(self).pos() + L::n();
}
pub trait CryptoRng {}

// ---------------------------------------------------------------------------------- subtle
pub struct Choice { pub b: bool }
impl vstd::std_specs::convert::FromSpecImpl<Choice> for bool {
    open spec fn obeys_from_spec() -> bool { true }
    open spec fn from_spec(c: Choice) -> bool { c.b }
}
impl core::convert::From<Choice> for bool { fn from(c: Choice) -> (r: bool) { c.b } }
pub trait ConstantTimeEq {
    /// constant-time-ness is not modelled: ct_eq is equality
    spec fn ct_eq_spec(&self, other: &Self) -> bool;
    fn ct_eq(&self, other: &Self) -> (r: Choice) ensures r.b == self.ct_eq_spec(other);
}
impl<L: ArrayLength<u8>> ConstantTimeEq for GenericArray<u8, L> {
    open spec fn ct_eq_spec(&self, other: &Self) -> bool { self@ == other@ }
    #[verifier::external_body]
    fn ct_eq(&self, other: &Self) -> (r: Choice) { unimplemented!() }
}
impl ConstantTimeEq for [u8] {
    open spec fn ct_eq_spec(&self, other: &Self) -> bool { self@ == other@ }
    #[verifier::external_body]
    fn ct_eq(&self, other: &Self) -> (r: Choice) { unimplemented!() }
}
impl ConstantTimeEq for u8 {
    open spec fn ct_eq_spec(&self, other: &Self) -> bool { *self == *other }
    #[verifier::external_body]
    fn ct_eq(&self, other: &Self) -> (r: Choice) { unimplemented!() }
}
impl core::ops::BitOr for Choice {
    type Output = Choice;
    #[verifier::external_body]
    fn bitor(self, rhs: Choice) -> (r: Choice) ensures r.b == (self.b || rhs.b) { Choice { b: self.b || rhs.b } }
}
impl core::ops::BitAnd for Choice {
    type Output = Choice;
    #[verifier::external_body]
    fn bitand(self, rhs: Choice) -> (r: Choice) ensures r.b == (self.b && rhs.b) { Choice { b: self.b && rhs.b } }
}
// (vstd ties `|`, `&`, `!` on a user type to these spec impls; without them every use of the operator has an unprovable precondition)
impl vstd::std_specs::ops::BitOrSpecImpl<Choice> for Choice {
    open spec fn obeys_bitor_spec() -> bool { true }
    open spec fn bitor_req(self, rhs: Choice) -> bool { true }
    open spec fn bitor_spec(self, rhs: Choice) -> Choice { Choice { b: self.b || rhs.b } }
}
impl vstd::std_specs::ops::BitAndSpecImpl<Choice> for Choice {
    open spec fn obeys_bitand_spec() -> bool { true }
    open spec fn bitand_req(self, rhs: Choice) -> bool { true }
    open spec fn bitand_spec(self, rhs: Choice) -> Choice { Choice { b: self.b && rhs.b } }
}
impl vstd::std_specs::ops::NotSpecImpl for Choice {
    open spec fn obeys_not_spec() -> bool { true }
    open spec fn not_req(self) -> bool { true }
    open spec fn not_spec(self) -> Choice { Choice { b: !self.b } }
}
impl core::ops::Not for Choice {
    type Output = Choice;
    #[verifier::external_body]
    fn not(self) -> (r: Choice) ensures r.b == !self.b { Choice { b: !self.b } }
}

// ---------------------------------------------------------------------------------- elliptic-curve 0.13 (only what src/key_exchange/group/elliptic_curve.rs calls)
pub mod subtle { pub use super::Choice; }
pub mod elliptic_curve {
    use super::*;
    use vstd::std_specs::ops::MulSpec;
    verus! {
    pub struct Error;
    /// `<FieldBytesSize<G> as ModulusSize>::CompressedPointSize`
    pub trait ModulusSize { type CompressedPointSize: ArrayLength<u8>; }
    #[verifier::external_body]
    #[verifier::reject_recursive_types(G)]
    pub struct EncodedPoint<G> { _p: PhantomData<G> }
    impl<G> EncodedPoint<G> {
        pub uninterp spec fn bytes(&self) -> Seq<u8>;
        #[verifier::external_body]
        pub fn as_bytes(&self) -> (r: &[u8]) ensures r@ == self.bytes() { unimplemented!() }
    }
    pub trait ToEncodedPoint<G>: Sized {
        /// SEC1 encoding of a point (compressed: tag 02/03 || x)
        spec fn sec1(&self, compress: bool) -> Seq<u8>;
        fn to_encoded_point(&self, compress: bool) -> (r: EncodedPoint<G>) ensures r.bytes() == self.sec1(compress);
    }
    pub trait Group: Sized {
        spec fn gen() -> Self;
        fn generator() -> (r: Self) ensures r == Self::gen();
    }
    pub trait Field: Sized {
        spec fn zero(&self) -> bool;
        fn is_zero(&self) -> (r: Choice) ensures r.b == self.zero();
    }
    pub struct ExpandMsgXmd<H> { _p: PhantomData<H> }
    /// stands for `G: GroupDigest` together with the other where-clauses of the blanket impl (rule R2 strips those)
    pub trait GroupDigest: Sized {
        type Pt: Copy + core::ops::Mul<Self::Sc, Output = Self::Pt> + ToEncodedPoint<Self> + Group;
        type Sc: Copy + Field + core::convert::Into<GenericArray<u8, Self::FieldLen>>;
        type FieldLen: ArrayLength<u8> + ModulusSize;
        /// scalar multiplication (the `*` of the point type)
        spec fn smul(p: Self::Pt, s: Self::Sc) -> Self::Pt;
        /// big-endian encoding of a scalar (`Into<FieldBytes>`)
        spec fn sc_bytes(s: Self::Sc) -> Seq<u8>;
        /// what `PublicKey::from_sec1_bytes` accepts (any SEC1 form of a non-identity point on the curve)
        spec fn from_sec1(b: Seq<u8>) -> Option<Self::Pt>;
        /// what `SecretKey::from_slice` accepts (a non-zero scalar below the order; shorter inputs are zero-padded!)
        spec fn from_slice(b: Seq<u8>) -> Option<Self::Sc>;
        spec fn h2s_xmd<X>(input: Seq<u8>, dst: Seq<u8>) -> Option<Self::Sc>;
        fn hash_to_scalar<X>(input: Chunks<'_>, dst: Chunks<'_>) -> (r: Result<Self::Sc, Error>)
            ensures r is Ok <==> Self::h2s_xmd::<X>(input.flat(), dst.flat()) is Some,
                    r is Ok ==> Some(r->Ok_0) == Self::h2s_xmd::<X>(input.flat(), dst.flat());

        /// [assumed] the operators and conversions of the point / scalar types compute the spec functions above
        proof fn lemma_ops()
            ensures
                <Self::Pt as MulSpec<Self::Sc>>::obeys_mul_spec(),
                forall|p: Self::Pt, s: Self::Sc| #[trigger] <Self::Pt as MulSpec<Self::Sc>>::mul_req(p, s),
                forall|p: Self::Pt, s: Self::Sc| #[trigger] <Self::Pt as MulSpec<Self::Sc>>::mul_spec(p, s) == Self::smul(p, s),
                forall|s: Self::Sc, r: GenericArray<u8, Self::FieldLen>| #[trigger] call_ensures(<Self::Sc as core::convert::Into<GenericArray<u8, Self::FieldLen>>>::into, (s,), r) ==> r@ == Self::sc_bytes(s);
        /// [assumed] lengths: compressed SEC1 = CompressedPointSize, scalars = FieldBytesSize, both 1..=255.
        /// CAVEAT (listed in the evidence): stated for every point, but SEC1 encodes the identity in ONE byte; values of type `Pk` are never the
        /// identity by construction (deserialize_pk refuses it, public_key / diffie_hellman of non-zero scalars and non-identity points in a
        /// prime-order group) - the KeGroup trait contract has no validity predicate on `Pk` to say so.
        proof fn lemma_lens(p: Self::Pt, s: Self::Sc)
            ensures
                p.sec1(true).len() == <Self::FieldLen as ModulusSize>::CompressedPointSize::n(),
                Self::sc_bytes(s).len() == Self::FieldLen::n(),
                wf_len::<<Self::FieldLen as ModulusSize>::CompressedPointSize>(), wf_len::<Self::FieldLen>(),
                0 < <Self::FieldLen as ModulusSize>::CompressedPointSize::n() <= 255, 0 < Self::FieldLen::n() <= 255;
        /// [assumed] group law: (g * a) * b == (g * b) * a
        proof fn lemma_smul_comm(a: Self::Sc, b: Self::Sc)
            ensures Self::smul(Self::smul(Self::Pt::gen(), a), b) == Self::smul(Self::smul(Self::Pt::gen(), b), a);
        /// [assumed] `SecretKey` holds a NonZeroScalar; the compressed encoding of g * s (s != 0) decodes to the same point; scalars round-trip
        proof fn lemma_codecs(b: Seq<u8>, s: Self::Sc)
            ensures
                Self::from_slice(b) is Some ==> !Self::from_slice(b)->0.zero(),
                !s.zero() ==> Self::from_slice(Self::sc_bytes(s)) == Some(s),
                !s.zero() ==> Self::from_sec1(Self::smul(Self::Pt::gen(), s).sec1(true)) == Some(Self::smul(Self::Pt::gen(), s));
    }
    pub type ProjectivePoint<G> = <G as GroupDigest>::Pt;
    pub type Scalar<G> = <G as GroupDigest>::Sc;
    pub type FieldBytesSize<G> = <G as GroupDigest>::FieldLen;

    #[verifier::external_body]
    #[verifier::reject_recursive_types(G)]
    pub struct PublicKey<G: GroupDigest> { _p: PhantomData<G> }
    impl<G: GroupDigest> PublicKey<G> {
        pub uninterp spec fn pt(&self) -> G::Pt;
        #[verifier::external_body]
        pub fn from_sec1_bytes(bytes: &[u8]) -> (r: Result<Self, Error>)
            ensures r is Ok <==> G::from_sec1(bytes@) is Some, r is Ok ==> Some(r->Ok_0.pt()) == G::from_sec1(bytes@)
        { unimplemented!() }
        #[verifier::external_body]
        pub fn to_projective(&self) -> (r: G::Pt) ensures r == self.pt() { unimplemented!() }
    }
    #[verifier::external_body]
    #[verifier::reject_recursive_types(G)]
    pub struct NonZeroScalar<G: GroupDigest> { _p: PhantomData<G> }
    impl<G: GroupDigest> NonZeroScalar<G> { pub uninterp spec fn sc(&self) -> G::Sc; }
    impl<G: GroupDigest> core::ops::Deref for NonZeroScalar<G> {
        type Target = G::Sc;
        #[verifier::external_body]
        fn deref(&self) -> (r: &G::Sc) ensures *r == self.sc() { unimplemented!() }
    }
    #[verifier::external_body]
    #[verifier::reject_recursive_types(G)]
    pub struct SecretKey<G: GroupDigest> { _p: PhantomData<G> }
    impl<G: GroupDigest> SecretKey<G> {
        pub uninterp spec fn sc(&self) -> G::Sc;
        #[verifier::external_body]
        pub fn from_slice(bytes: &[u8]) -> (r: Result<Self, Error>)
            ensures r is Ok <==> G::from_slice(bytes@) is Some, r is Ok ==> Some(r->Ok_0.sc()) == G::from_slice(bytes@)
        { unimplemented!() }
        #[verifier::external_body]
        pub fn random<R: RngCore + CryptoRng>(rng: &mut R) -> (r: Self) { unimplemented!() }
        #[verifier::external_body]
        pub fn to_nonzero_scalar(&self) -> (r: NonZeroScalar<G>) ensures r.sc() == self.sc() { unimplemented!() }
    }
    }
}

// ---------------------------------------------------------------------------------- argon2 0.5 (only what src/ksf.rs calls)
pub mod argon2 {
    use super::*;
    verus! {
    pub const RECOMMENDED_SALT_LEN: usize = 16;
    pub struct Error;
    #[verifier::external_body]
    pub struct Argon2<'key> { _p: PhantomData<&'key ()> }
    impl<'key> Argon2<'key> {
        /// Argon2(params of self; password, salt) with `len` output bytes; None = the library refuses (parameters / lengths / memory)
        pub uninterp spec fn kdf(&self, pwd: Seq<u8>, salt: Seq<u8>, len: nat) -> Option<Seq<u8>>;
        /// the real method takes `&[u8], &[u8], &mut [u8]`; the call site passes `&GenericArray`, `&[0; 16]`, `&mut GenericArray` (deref coercions)
        #[verifier::external_body]
        pub fn hash_password_into<L: ArrayLength<u8>>(&self, pwd: &GenericArray<u8, L>, salt: &[u8; 16], out: &mut GenericArray<u8, L>) -> (r: Result<(), Error>)
            ensures
                r is Ok <==> self.kdf(pwd@, salt@, L::n()) is Some,
                r is Ok ==> final(out)@ == self.kdf(pwd@, salt@, L::n())->0,
        { unimplemented!() }
    }
    impl<'key> Default for Argon2<'key> { #[verifier::external_body] fn default() -> Self { unimplemented!() } }
    /// (proved) a 16-byte all-zero salt is `zeros(16)` whatever expression produced it
    pub broadcast proof fn lemma_kdf_zero_salt<'key>(a: Argon2<'key>, p: Seq<u8>, s: Seq<u8>, l: nat)
        requires s.len() == 16, forall|i: int| 0 <= i < 16 ==> s[i] == 0u8,
        ensures #[trigger] a.kdf(p, s, l) == a.kdf(p, Seq::new(16, |i: int| 0u8), l)
    { assert(s =~= Seq::new(16, |i: int| 0u8)); }
    pub proof fn lemma_kdf_len<'key>(a: Argon2<'key>, pwd: Seq<u8>, salt: Seq<u8>, len: nat)
        ensures a.kdf(pwd, salt, len) is Some ==> a.kdf(pwd, salt, len)->0.len() == len
    { admit(); }
    }
}

// ---------------------------------------------------------------------------------- voprf 0.5 (mode OPRF)
pub mod voprf {
    use super::*;
    verus! {
    #[derive(Debug)]
    pub enum Error { Info, Input, DeriveKeyPair, Deserialization, Batch, ProofVerification, Protocol }
    impl Clone for Error { #[verifier::external_body] fn clone(&self) -> (r: Self) ensures r == *self { unimplemented!() } }
    impl Copy for Error {}
    #[derive(Debug)]
    pub enum InternalError { Input, I2osp }
    impl Clone for InternalError { #[verifier::external_body] fn clone(&self) -> (r: Self) ensures r == *self { unimplemented!() } }
    impl Copy for InternalError {}
    pub enum Mode { Oprf, Voprf, Poprf }
    impl Mode {
        #[verifier::external_body]
        pub fn to_u8(self) -> (r: u8) ensures r == (match self { Mode::Oprf => 0u8, Mode::Voprf => 1u8, Mode::Poprf => 2u8 }) { unimplemented!() }
    }
    /// `CS::ID` is a `&'static str`; only its bytes are ever used
    #[verifier::external_body]
    pub struct IdStr { _p: () }
    impl IdStr {
        pub uninterp spec fn bytes(&self) -> Seq<u8>;
        #[verifier::external_body]
        pub fn as_bytes(&self) -> (r: &[u8]) ensures r@ == self.bytes() { unimplemented!() }
    }
    pub trait CipherSuite: Sized {
        const ID: &'static IdStr;
        type Group: Group;
        type Hash: Hash;
        /// the suite's context-string identifier, e.g. "ristretto255-SHA512"
        spec fn id() -> Seq<u8>;
        proof fn lemma_id() ensures Self::ID.bytes() == Self::id(), Self::id().len() <= 255;
    }
    pub trait Group: Sized {
        type Elem: ConstantTimeEq + Copy;
        /// ct_eq on group elements is equality of the elements
        proof fn lemma_elem_ct_eq(a: Self::Elem, b: Self::Elem) ensures a.ct_eq_spec(&b) == (a == b);
        type ElemLen: ArrayLength<u8>;
        type Scalar: Copy;
        type ScalarLen: ArrayLength<u8>;
        // --- abstract algebra
        spec fn smul(e: Self::Elem, s: Self::Scalar) -> Self::Elem;
        spec fn inv(s: Self::Scalar) -> Self::Scalar;
        spec fn identity() -> Self::Elem;
        spec fn scalar_nonzero(s: Self::Scalar) -> bool;
        spec fn ser_elem(e: Self::Elem) -> Seq<u8>;
        /// what `deserialize_elem` accepts (it rejects the identity)
        spec fn de_elem(b: Seq<u8>) -> Option<Self::Elem>;
        spec fn ser_scalar(s: Self::Scalar) -> Seq<u8>;
        spec fn de_scalar(b: Seq<u8>) -> Option<Self::Scalar>;
        fn serialize_elem(elem: Self::Elem) -> (r: GenericArray<u8, Self::ElemLen>) ensures r@ == Self::ser_elem(elem);
        fn identity_elem() -> (r: Self::Elem) ensures r == Self::identity();
        fn serialize_scalar(s: Self::Scalar) -> (r: GenericArray<u8, Self::ScalarLen>) ensures r@ == Self::ser_scalar(s);
        proof fn lemma_ser_elem_len(e: Self::Elem) ensures Self::ser_elem(e).len() == Self::ElemLen::n();
        proof fn lemma_ser_scalar_len(s: Self::Scalar) ensures Self::ser_scalar(s).len() == Self::ScalarLen::n();
        proof fn lemma_group_lens() ensures wf_len::<Self::ElemLen>(), wf_len::<Self::ScalarLen>(), 0 < Self::ElemLen::n() <= 255, 0 < Self::ScalarLen::n() <= 255;
        /// (e * a) * b == (e * b) * a ; (e * r) * r^-1 == e for r != 0   [group law, assumed]
        proof fn lemma_smul_comm(e: Self::Elem, a: Self::Scalar, b: Self::Scalar)
            ensures Self::smul(Self::smul(e, a), b) == Self::smul(Self::smul(e, b), a);
        proof fn lemma_smul_inv(e: Self::Elem, r: Self::Scalar)
            requires Self::scalar_nonzero(r)
            ensures Self::smul(Self::smul(e, r), Self::inv(r)) == e;
        /// codecs round-trip on values the library itself produced
        proof fn lemma_scalar_roundtrip(s: Self::Scalar)
            requires Self::scalar_nonzero(s)
            ensures Self::de_scalar(Self::ser_scalar(s)) == Some(s);
        proof fn lemma_elem_roundtrip(e: Self::Elem)
            requires e != Self::identity()
            ensures Self::de_elem(Self::ser_elem(e)) == Some(e);
        /// scalar decoding is canonical for exact-length input (big-endian / little-endian integer below the group order, no aliases)
        proof fn lemma_de_scalar_canonical(b: Seq<u8>)
            ensures Self::de_scalar(b) is Some && b.len() == Self::ScalarLen::n() ==> Self::ser_scalar(Self::de_scalar(b)->0) == b;
        /// decoders only return valid values: non-zero scalars, non-identity elements
        proof fn lemma_decoded_valid(b: Seq<u8>)
            ensures
                Self::de_scalar(b) is Some ==> Self::scalar_nonzero(Self::de_scalar(b)->0),
                Self::de_elem(b) is Some ==> Self::de_elem(b)->0 != Self::identity();
    }
    /// HashToGroup(input, DST = "HashToGroup-" || contextString); `None` = the library refuses the input
    pub uninterp spec fn h2g<CS: CipherSuite>(input: Seq<u8>) -> Option<<CS::Group as Group>::Elem>;
    /// the scalar `random_scalar` draws from tape position `pos`, and how many tape bytes that costs
    pub uninterp spec fn scalar_of_tape<CS: CipherSuite>(id: int, pos: nat) -> <CS::Group as Group>::Scalar;
    pub uninterp spec fn scalar_draw_len<CS: CipherSuite>(id: int, pos: nat) -> nat;
    /// RFC 9497 DeriveKeyPair(seed, info) for mode OPRF
    pub uninterp spec fn derive_key_spec<CS: CipherSuite>(seed: Seq<u8>, info: Seq<u8>) -> Result<<CS::Group as Group>::Scalar, Error>;
    pub proof fn axiom_scalar_of_tape_nonzero<CS: CipherSuite>(id: int, pos: nat)
        ensures <CS::Group as Group>::scalar_nonzero(scalar_of_tape::<CS>(id, pos)), scalar_draw_len::<CS>(id, pos) >= 1
    { admit(); }
    pub proof fn axiom_derive_key_nonzero<CS: CipherSuite>(seed: Seq<u8>, info: Seq<u8>)
        ensures derive_key_spec::<CS>(seed, info) is Ok ==> <CS::Group as Group>::scalar_nonzero(derive_key_spec::<CS>(seed, info)->Ok_0)
    { admit(); }

    pub open spec fn i2osp2(n: nat) -> Seq<u8> { seq![(n / 256) as u8, (n % 256) as u8] }
    pub open spec fn str_finalize() -> Seq<u8> { seq![0x46u8, 0x69, 0x6e, 0x61, 0x6c, 0x69, 0x7a, 0x65] }
    /// RFC 9497 Finalize hash input
    pub open spec fn finalize_input<CS: CipherSuite>(input: Seq<u8>, unblinded: <CS::Group as Group>::Elem) -> Seq<u8> {
        i2osp2(input.len()) + input + i2osp2(<CS::Group as Group>::ElemLen::n()) + <CS::Group as Group>::ser_elem(unblinded) + str_finalize()
    }

    #[verifier::external_body] #[verifier::accept_recursive_types(CS)]
    pub struct OprfClient<CS: CipherSuite> { _p: PhantomData<CS> }
    #[verifier::external_body] #[verifier::accept_recursive_types(CS)]
    pub struct OprfServer<CS: CipherSuite> { _p: PhantomData<CS> }
    #[verifier::external_body] #[verifier::accept_recursive_types(CS)]
    pub struct BlindedElement<CS: CipherSuite> { _p: PhantomData<CS> }
    #[verifier::external_body] #[verifier::accept_recursive_types(CS)]
    pub struct EvaluationElement<CS: CipherSuite> { _p: PhantomData<CS> }
    pub struct OprfClientBlindResult<CS: CipherSuite> { pub state: OprfClient<CS>, pub message: BlindedElement<CS> }

    impl<CS: CipherSuite> BlindedElement<CS> {
        pub uninterp spec fn v(&self) -> <CS::Group as Group>::Elem;
        #[verifier::external_body]
        pub fn value(&self) -> (r: <CS::Group as Group>::Elem) ensures r == self.v() { unimplemented!() }
        #[verifier::external_body]
        pub fn clone(&self) -> (r: Self) ensures r == *self { unimplemented!() }
        #[verifier::external_body]
        pub fn serialize(&self) -> (r: GenericArray<u8, <CS::Group as Group>::ElemLen>) ensures r@ == <CS::Group as Group>::ser_elem(self.v()) { unimplemented!() }
        /// voprf 0.5: reads the first Noe bytes and ignores the rest (this is the contract the dependency really has)
        #[verifier::external_body]
        pub fn deserialize(input: &[u8]) -> (r: Result<Self, Error>)
            ensures
                r is Ok <==> (input@.len() >= <CS::Group as Group>::ElemLen::n() && <CS::Group as Group>::de_elem(input@.subrange(0, <CS::Group as Group>::ElemLen::n() as int)) is Some),
                r is Ok ==> Some(r->Ok_0.v()) == <CS::Group as Group>::de_elem(input@.subrange(0, <CS::Group as Group>::ElemLen::n() as int)),
                r is Err ==> r->Err_0 == Error::Deserialization,
        { unimplemented!() }
    }
    pub broadcast proof fn axiom_blinded_ext<CS: CipherSuite>(a: BlindedElement<CS>, b: BlindedElement<CS>)
        requires #[trigger] a.v() == #[trigger] b.v() ensures a == b { admit(); }
    impl<CS: CipherSuite> EvaluationElement<CS> {
        pub uninterp spec fn v(&self) -> <CS::Group as Group>::Elem;
        #[verifier::external_body]
        pub fn value(&self) -> (r: <CS::Group as Group>::Elem) ensures r == self.v() { unimplemented!() }
        #[verifier::external_body]
        pub fn clone(&self) -> (r: Self) ensures r == *self { unimplemented!() }
        #[verifier::external_body]
        pub fn serialize(&self) -> (r: GenericArray<u8, <CS::Group as Group>::ElemLen>) ensures r@ == <CS::Group as Group>::ser_elem(self.v()) { unimplemented!() }
        #[verifier::external_body]
        pub fn deserialize(input: &[u8]) -> (r: Result<Self, Error>)
            ensures
                r is Ok <==> (input@.len() >= <CS::Group as Group>::ElemLen::n() && <CS::Group as Group>::de_elem(input@.subrange(0, <CS::Group as Group>::ElemLen::n() as int)) is Some),
                r is Ok ==> Some(r->Ok_0.v()) == <CS::Group as Group>::de_elem(input@.subrange(0, <CS::Group as Group>::ElemLen::n() as int)),
                r is Err ==> r->Err_0 == Error::Deserialization,
        { unimplemented!() }
    }
    pub broadcast proof fn axiom_evaluation_ext<CS: CipherSuite>(a: EvaluationElement<CS>, b: EvaluationElement<CS>)
        requires #[trigger] a.v() == #[trigger] b.v() ensures a == b { admit(); }
    impl<CS: CipherSuite> OprfClient<CS> {
        pub uninterp spec fn blind_of(&self) -> <CS::Group as Group>::Scalar;
        #[verifier::external_body]
        pub fn clone(&self) -> (r: Self) ensures r == *self { unimplemented!() }
        /// random_scalar(rng) then H2G(input) * blind; fails only when H2G refuses the input
        #[verifier::external_body]
        pub fn blind<R: RngCore + CryptoRng>(input: &[u8], blinding_factor_rng: &mut R) -> (r: Result<OprfClientBlindResult<CS>, Error>)
            ensures
                final(blinding_factor_rng).id() == old(blinding_factor_rng).id(),
                final(blinding_factor_rng).pos() == old(blinding_factor_rng).pos() + scalar_draw_len::<CS>(old(blinding_factor_rng).id(), old(blinding_factor_rng).pos()),
                r is Ok <==> h2g::<CS>(input@) is Some,
                r is Ok ==> r->Ok_0.state.blind_of() == scalar_of_tape::<CS>(old(blinding_factor_rng).id(), old(blinding_factor_rng).pos())
                    && r->Ok_0.message.v() == <CS::Group as Group>::smul(h2g::<CS>(input@)->0, r->Ok_0.state.blind_of()),
                r is Err ==> r->Err_0 == Error::Input,
        { unimplemented!() }
        /// unblind, then Hash(I2OSP(len(input),2) || input || I2OSP(Noe,2) || element || "Finalize")
        #[verifier::external_body]
        pub fn finalize(&self, input: &[u8], evaluation_element: &EvaluationElement<CS>) -> (r: Result<Output<CS::Hash>, Error>)
            ensures
                r is Ok <==> input@.len() <= 65535,
                r is Ok ==> r->Ok_0@ == <CS::Hash as Digest>::h(finalize_input::<CS>(input@, <CS::Group as Group>::smul(evaluation_element.v(), <CS::Group as Group>::inv(self.blind_of())))),
                r is Err ==> r->Err_0 == Error::Input,
        { unimplemented!() }
        #[verifier::external_body]
        pub fn serialize(&self) -> (r: GenericArray<u8, <CS::Group as Group>::ScalarLen>) ensures r@ == <CS::Group as Group>::ser_scalar(self.blind_of()) { unimplemented!() }
        /// reads the first Nok bytes and ignores the rest
        #[verifier::external_body]
        pub fn deserialize(input: &[u8]) -> (r: Result<Self, Error>)
            ensures
                r is Ok <==> (input@.len() >= <CS::Group as Group>::ScalarLen::n() && <CS::Group as Group>::de_scalar(input@.subrange(0, <CS::Group as Group>::ScalarLen::n() as int)) is Some),
                r is Ok ==> Some(r->Ok_0.blind_of()) == <CS::Group as Group>::de_scalar(input@.subrange(0, <CS::Group as Group>::ScalarLen::n() as int)),
                r is Err ==> r->Err_0 == Error::Deserialization,
        { unimplemented!() }
    }
    pub broadcast proof fn axiom_client_ext<CS: CipherSuite>(a: OprfClient<CS>, b: OprfClient<CS>)
        requires #[trigger] a.blind_of() == #[trigger] b.blind_of() ensures a == b { admit(); }
    impl<CS: CipherSuite> OprfServer<CS> {
        pub uninterp spec fn sk(&self) -> <CS::Group as Group>::Scalar;
        #[verifier::external_body]
        pub fn new_with_key(private_key_bytes: &[u8]) -> (r: Result<Self, Error>)
            ensures
                r is Ok <==> <CS::Group as Group>::de_scalar(private_key_bytes@) is Some,
                r is Ok ==> Some(r->Ok_0.sk()) == <CS::Group as Group>::de_scalar(private_key_bytes@),
                r is Err ==> r->Err_0 == Error::Deserialization,
        { unimplemented!() }
        #[verifier::external_body]
        pub fn blind_evaluate(&self, blinded_element: &BlindedElement<CS>) -> (r: EvaluationElement<CS>)
            ensures r.v() == <CS::Group as Group>::smul(blinded_element.v(), self.sk())
        { unimplemented!() }
    }
    #[verifier::external_body]
    pub fn derive_key<CS: CipherSuite>(seed: &[u8], info: &[u8], mode: Mode) -> (r: Result<<CS::Group as Group>::Scalar, Error>)
        requires mode is Oprf,
        ensures r == derive_key_spec::<CS>(seed@, info@),
    { unimplemented!() }
    } // verus!
}
pub use voprf::Group;

// ---------------------------------------------------------------------------------- serde (only what the hand-written key impls use)
pub mod serde {
    use super::*;
    verus! {
    pub mod de { use super::*; verus! { pub trait Error: Sized { fn custom<T>(msg: T) -> Self; } } }
    /// a data format reader; `payload()` is the byte string it will yield for a fixed-size byte array
    pub trait Deserializer<'de>: Sized { type Error: de::Error; spec fn payload(&self) -> Seq<u8>; }
    /// a data format writer; `written(bytes)` is the outcome of writing a fixed-size byte array
    pub trait Serializer: Sized { type Ok; type Error; spec fn written(&self, bytes: Seq<u8>) -> Result<Self::Ok, Self::Error>; }
    pub trait Deserialize<'de>: Sized { fn deserialize<D: Deserializer<'de>>(deserializer: D) -> Result<Self, D::Error>; }
    pub trait Serialize { fn serialize<S: Serializer>(&self, serializer: S) -> Result<S::Ok, S::Error>; }
    impl<'de, L: ArrayLength<u8>> Deserialize<'de> for GenericArray<u8, L> {
        /// generic-array's serde impl: reads exactly L bytes or fails (a slot that was written as an array of another length is not read back:
        /// "invalid length" in a self-describing format, a misaligned read in bincode)
        #[verifier::external_body]
        fn deserialize<D: Deserializer<'de>>(deserializer: D) -> (r: Result<Self, D::Error>)
            ensures r is Ok ==> r->Ok_0@ == deserializer.payload(),
                    r is Ok <==> deserializer.payload().len() == L::n(),
        { unimplemented!() }
    }
    impl<L: ArrayLength<u8>> Serialize for GenericArray<u8, L> {
        #[verifier::external_body]
        fn serialize<S: Serializer>(&self, serializer: S) -> (r: Result<S::Ok, S::Error>)
            ensures r == serializer.written(self@)
        { unimplemented!() }
    }
    } // verus!
}

// ---------------------------------------------------------------------------------- opaque-ke's own traits
/// key-exchange group (declaration anchor-checked against src/key_exchange/group/mod.rs).
/// The trait-level contract is what every implementation must satisfy; for the three impls in /repo it is
/// discharged by Kani (kani/api) against stubs of dalek / elliptic-curve, or listed as assumed.
pub trait KeGroup: Sized {
    type Pk: Copy;
    type PkLen: ArrayLength<u8>;
    type Sk: Copy;
    type SkLen: ArrayLength<u8>;
    spec fn ser_pk(pk: Self::Pk) -> Seq<u8>;
    spec fn de_pk(b: Seq<u8>) -> Option<Self::Pk>;
    spec fn ser_sk(sk: Self::Sk) -> Seq<u8>;
    spec fn de_sk(b: Seq<u8>) -> Option<Self::Sk>;
    spec fn pk_of(sk: Self::Sk) -> Self::Pk;
    spec fn dh(pk: Self::Pk, sk: Self::Sk) -> Seq<u8>;
    spec fn sk_is_zero(sk: Self::Sk) -> bool;
    spec fn h2s<H>(input: Seq<u8>, dst: Seq<u8>) -> Result<Self::Sk, InternalError>;
    /// DeriveDiffieHellmanKeyPair of this group for OPRF suite CS (RFC 9807 / RFC 7748 clamp)
    spec fn derive_spec<CS: voprf::CipherSuite>(seed: Seq<u8>) -> Result<Self::Sk, InternalError>;

    fn serialize_pk(pk: Self::Pk) -> (r: GenericArray<u8, Self::PkLen>) ensures r@ == Self::ser_pk(pk);
    fn deserialize_pk(bytes: &[u8]) -> (r: Result<Self::Pk, InternalError>)
        ensures
            r is Ok <==> Self::de_pk(bytes@) is Some,
            r is Ok ==> Some(r->Ok_0) == Self::de_pk(bytes@),
            r is Err ==> r->Err_0 == InternalError::<Infallible>::PointError;
    /// (not called by the extracted code: key generation goes through derive_auth_keypair; present so that impls can be checked)
    fn random_sk<R: RngCore + CryptoRng>(rng: &mut R) -> (r: Self::Sk);
    fn hash_to_scalar<H>(input: Chunks<'_>, dst: Chunks<'_>) -> (r: Result<Self::Sk, InternalError>)
        ensures r == Self::h2s::<H>(input.flat(), dst.flat());
    fn derive_auth_keypair<CS: voprf::CipherSuite>(seed: GenericArray<u8, Self::SkLen>) -> (r: Result<Self::Sk, InternalError>)
        ensures r == Self::derive_spec::<CS>(seed@);
    fn is_zero_scalar(scalar: Self::Sk) -> (r: Choice) ensures r.b == Self::sk_is_zero(scalar);
    fn public_key(sk: Self::Sk) -> (r: Self::Pk) ensures r == Self::pk_of(sk);
    fn diffie_hellman(pk: Self::Pk, sk: Self::Sk) -> (r: GenericArray<u8, Self::PkLen>) ensures r@ == Self::dh(pk, sk);
    fn serialize_sk(sk: Self::Sk) -> (r: GenericArray<u8, Self::SkLen>) ensures r@ == Self::ser_sk(sk);
    fn deserialize_sk(bytes: &[u8]) -> (r: Result<Self::Sk, InternalError>)
        ensures
            r is Ok <==> Self::de_sk(bytes@) is Some,
            r is Ok ==> Some(r->Ok_0) == Self::de_sk(bytes@),
            r is Err ==> r->Err_0 == InternalError::<Infallible>::PointError;

    proof fn lemma_ser_pk_len(pk: Self::Pk) ensures Self::ser_pk(pk).len() == Self::PkLen::n();
    proof fn lemma_ser_sk_len(sk: Self::Sk) ensures Self::ser_sk(sk).len() == Self::SkLen::n();
    proof fn lemma_kg_lens() ensures wf_len::<Self::PkLen>(), wf_len::<Self::SkLen>(), 0 < Self::PkLen::n() <= 255, 0 < Self::SkLen::n() <= 255;
    /// [group law, assumed] DH symmetry
    proof fn lemma_dh_sym(a: Self::Sk, b: Self::Sk) ensures Self::dh(Self::pk_of(a), b) == Self::dh(Self::pk_of(b), a);
    /// [Kani / assumed] decoders are strict and canonical: exact length, and accepted bytes re-encode to themselves
    proof fn lemma_de_pk_canonical(b: Seq<u8>)
        ensures Self::de_pk(b) is Some ==> b.len() == Self::PkLen::n() && Self::ser_pk(Self::de_pk(b)->0) == b;
    proof fn lemma_de_sk_canonical(b: Seq<u8>)
        ensures Self::de_sk(b) is Some ==> !Self::sk_is_zero(Self::de_sk(b)->0) && b.len() == Self::SkLen::n() && Self::ser_sk(Self::de_sk(b)->0) == b;
    /// [Kani / assumed] encoders round-trip on valid values
    proof fn lemma_sk_roundtrip(sk: Self::Sk) requires !Self::sk_is_zero(sk) ensures Self::de_sk(Self::ser_sk(sk)) == Some(sk);
    proof fn lemma_pk_roundtrip(sk: Self::Sk) requires !Self::sk_is_zero(sk) ensures Self::de_pk(Self::ser_pk(Self::pk_of(sk))) == Some(Self::pk_of(sk));
    /// [Kani / proved for the default impl] derived keys are non-zero
    proof fn lemma_derive_nonzero<CS: voprf::CipherSuite>(seed: Seq<u8>)
        ensures Self::derive_spec::<CS>(seed) is Ok ==> !Self::sk_is_zero(Self::derive_spec::<CS>(seed)->Ok_0),
                Self::derive_spec::<CS>(seed) is Err ==> !(Self::derive_spec::<CS>(seed)->Err_0 is Custom);
}

/// a private key, possibly held externally (anchor: src/keypair.rs).  `Self::Error` values are opaque.
pub trait SecretKey<KG: KeGroup>: Clone + Sized {
    type Error;
    type Len: ArrayLength<u8>;
    spec fn dh_res(&self, pk: PublicKey<KG>) -> Result<Seq<u8>, InternalError<Self::Error>>;
    spec fn pk_res(&self) -> Result<PublicKey<KG>, InternalError<Self::Error>>;
    spec fn ser(&self) -> Seq<u8>;
    spec fn de_res(b: Seq<u8>) -> Result<Self, InternalError<Self::Error>>;
    fn diffie_hellman(&self, pk: PublicKey<KG>) -> (r: Result<GenericArray<u8, KG::PkLen>, InternalError<Self::Error>>)
        ensures
            r is Ok <==> self.dh_res(pk) is Ok,
            r is Ok ==> r->Ok_0@ == self.dh_res(pk)->Ok_0,
            r is Err ==> r->Err_0 == self.dh_res(pk)->Err_0;
    fn public_key(&self) -> (r: Result<PublicKey<KG>, InternalError<Self::Error>>) ensures r == self.pk_res();
    fn serialize(&self) -> (r: GenericArray<u8, Self::Len>) ensures r@ == self.ser();
    fn deserialize(input: &[u8]) -> (r: Result<Self, InternalError<Self::Error>>) ensures r == Self::de_res(input@);
    proof fn lemma_sk_len() ensures wf_len::<Self::Len>();
}

/// `Clone::clone` of an externally held key (a generic `S: SecretKey`) denotes the same key.  Only brought into scope
/// (broadcast use) by functions that clone a generic `S`; all other clones are the R12-generated field-wise ones.
pub broadcast proof fn axiom_clone_is_identity<T: Clone>(a: &T, b: T)
    requires #[trigger] call_ensures(T::clone, (a,), b)
    ensures *a == b
{ admit(); }

/// key-stretching function (anchor: src/ksf.rs); `hash` is a function of (self, input)
pub trait Ksf: Default + Sized {
    spec fn ksf_spec(&self, input: Seq<u8>) -> Result<Seq<u8>, InternalError>;
    fn hash<L: ArrayLength<u8>>(&self, input: GenericArray<u8, L>) -> (r: Result<GenericArray<u8, L>, InternalError>)
        ensures
            r is Ok <==> self.ksf_spec(input@) is Ok,
            r is Ok ==> r->Ok_0@ == self.ksf_spec(input@)->Ok_0,
            r is Err ==> r->Err_0 == self.ksf_spec(input@)->Err_0,
            r is Err ==> !(r->Err_0 is Custom);
}
pub uninterp spec fn ksf_default_spec<K: Ksf>() -> K;
/// rule R8: `CS::Ksf::default()` — `Default::default()` is assumed deterministic
#[verifier::external_body]
pub fn ksf_default<K: Ksf>() -> (r: K) ensures r == ksf_default_spec::<K>() { K::default() }

/// anchor: src/ciphersuite.rs.  `KeyExchange` is omitted: rule R9 fixes it to TripleDh.
pub trait CipherSuite: Sized {
    type OprfCs: voprf::CipherSuite;
    type KeGroup: KeGroup;
    type Ksf: Ksf;
}

// ---------------------------------------------------------------------------------- serialization: spec of I2OSP
/// (`Input` itself is extracted from src/serialization/mod.rs and verified; see contracts/serialization.vc)
pub open spec fn i2osp(n: nat, l: nat) -> Seq<u8>
    decreases l
{
    if l == 0 { Seq::<u8>::empty() } else { i2osp(n / 256, (l - 1) as nat) + seq![(n % 256) as u8] }
}
pub open spec fn fits(n: nat, l: nat) -> bool
    decreases l
{
    if l == 0 { n == 0 } else { fits(n / 256, (l - 1) as nat) }
}
/// Rust language guarantee: no object (hence no slice of bytes) is larger than isize::MAX bytes
#[verifier::external_body]
pub proof fn axiom_slice_len_isize(s: &[u8])
    ensures s@.len() <= isize::MAX as nat
{}

// ---------------------------------------------------------------------------------- sequence lemmas (proved)
pub broadcast proof fn seq_assoc(a: Seq<u8>, b: Seq<u8>, c: Seq<u8>)
    ensures #[trigger] (a + (b + c)) == (a + b) + c
{ assert((a + (b + c)) =~= ((a + b) + c)); }
pub broadcast proof fn seq_empty_l(a: Seq<u8>)
    ensures #[trigger] (Seq::<u8>::empty() + a) == a
{ assert((Seq::<u8>::empty() + a) =~= a); }
pub broadcast proof fn seq_empty_r(a: Seq<u8>)
    ensures #[trigger] (a + Seq::<u8>::empty()) == a
{ assert((a + Seq::<u8>::empty()) =~= a); }
pub broadcast group seq_norm { seq_assoc, seq_empty_l, seq_empty_r }
pub broadcast group ga_axioms { axiom_ga_len, axiom_ga_ext, axiom_ga_of_seq }
pub broadcast proof fn seq_subrange_subrange(s: Seq<u8>, a: int, b: int, c: int, d: int)
    requires 0 <= a <= b <= s.len(), 0 <= c <= d <= b - a,
    ensures #[trigger] s.subrange(a, b).subrange(c, d) == s.subrange(a + c, a + d)
{ assert(s.subrange(a, b).subrange(c, d) =~= s.subrange(a + c, a + d)); }
pub broadcast proof fn seq_subrange_full(s: Seq<u8>)
    ensures #[trigger] s.subrange(0, s.len() as int) == s
{ assert(s.subrange(0, s.len() as int) =~= s); }
pub broadcast group seq_sub { seq_subrange_subrange, seq_subrange_full }
