// =====================================================================================================
// THEOREMS — each listed property as a Verus program / lemma over the CONTRACTS of the extracted API.
// Exec harnesses call the real (extracted) functions; Verus checks them against callee contracts only.
// `//@vacuity` marks the place where the vacuity twin inserts `false` (that twin must FAIL).
// Hypotheses (idealisations, DESIGN.md 2.7) are explicit `requires`, never axioms.
// =====================================================================================================

// ------------------------------------------------------------------------------------------------ C03
/// For every pending server state (real or fake record — the state is three byte strings either way) and every byte
/// string `m`: decoding + ServerLogin::finish returns a key  <==>  m is exactly HMAC(km3, hashed_transcript);
/// the key is the state's session key; every other outcome is the invalid-login error (or a decode error for a wrong length).
pub fn thm_c03_exact<CS: CipherSuite>(st: ServerLogin<CS>, m: &[u8]) -> (r: Result<ServerLoginFinishResult<CS>, ProtocolError>)
    ensures
        r is Ok <==> m@ == <OprfHash<CS> as Digest>::hmac(st.ke2_state.km3@, st.ke2_state.hashed_transcript@),
        r is Ok ==> r->Ok_0.session_key == st.ke2_state.session_key,
        r is Err && m@.len() == nh::<CS>() ==> r->Err_0 == ProtocolError::<Infallible>::InvalidLoginError,
        //@vacuity
{
    proof {
        <OprfHash<CS> as Digest>::lemma_hmac_len(st.ke2_state.km3@, st.ke2_state.hashed_transcript@);
    }
    let msg = match CredentialFinalization::<CS>::deserialize(m) { Ok(v) => v, Err(e) => return Err(e) };
    st.finish(msg)
}
/// the tag a pending state produced by ServerLogin::start expects is the RFC client MAC of that session's transcript
pub proof fn thm_c03_expected_tag<D: Hash>(prk: Seq<u8>, pre: Seq<u8>, km3: Seq<u8>, ht: Seq<u8>)
    requires km3 == rfc_km3::<D>(prk, D::h(pre)), ht == D::h(pre + rfc_server_mac::<D>(prk, pre)),
    ensures D::hmac(km3, ht) == rfc_client_mac::<D>(prk, pre),
{}
/// a pending state reloaded from its native encoding expects the same tag and releases the same key
pub fn thm_c03_reload<CS: CipherSuite>(st: ServerLogin<CS>) -> (r: Result<ServerLogin<CS>, ProtocolError>)
    ensures
        r is Ok,
        r->Ok_0.ke2_state.km3 == st.ke2_state.km3,
        r->Ok_0.ke2_state.hashed_transcript == st.ke2_state.hashed_transcript,
        r->Ok_0.ke2_state.session_key == st.ke2_state.session_key,
        //@vacuity
{
    proof {
        broadcast use ga_axioms, seq_sub;
        lemma_lens::<CS>();
    }
    let bytes = st.serialize();
    proof {
        let h = nh::<CS>() as int;
        let s = st.ke2_state.km3@ + st.ke2_state.hashed_transcript@ + st.ke2_state.session_key@;
        assert(s.subrange(0, h) =~= st.ke2_state.km3@);
        assert(s.subrange(h, 2 * h) =~= st.ke2_state.hashed_transcript@);
        assert(s.subrange(2 * h, 3 * h) =~= st.ke2_state.session_key@);
    }
    ServerLogin::<CS>::deserialize(&bytes)
}

// ------------------------------------------------------------------------------------------------ shared lemmas
/// OPRF unblinding (RFC 9497): ((P * b) * k) * b^-1 == P * k, from the two assumed group laws
pub proof fn lemma_oprf_unblind<G: Group>(p: G::Elem, b: G::Scalar, k: G::Scalar)
    requires G::scalar_nonzero(b)
    ensures G::smul(G::smul(G::smul(p, b), k), G::inv(b)) == G::smul(p, k)
{
    G::lemma_smul_comm(p, b, k);
    G::lemma_smul_inv(G::smul(p, k), b);
}
/// the OPRF output does not depend on the blind
pub proof fn lemma_oprf_output_blind_independent<CS: CipherSuite>(pw: Seq<u8>, b: <OprfGroup<CS> as Group>::Scalar, k: <OprfGroup<CS> as Group>::Scalar)
    requires <OprfGroup<CS> as Group>::scalar_nonzero(b), voprf::h2g::<CS::OprfCs>(pw) is Some
    ensures ({
        let p = voprf::h2g::<CS::OprfCs>(pw)->0;
        rfc_oprf_output::<CS>(pw, b, <OprfGroup<CS> as Group>::smul(<OprfGroup<CS> as Group>::smul(p, b), k))
            == <OprfHash<CS> as Digest>::h(voprf::finalize_input::<CS::OprfCs>(pw, <OprfGroup<CS> as Group>::smul(p, k)))
    })
{
    lemma_oprf_unblind::<OprfGroup<CS>>(voprf::h2g::<CS::OprfCs>(pw)->0, b, k);
}
/// unmasking inverts masking (XOR pad involution) and the three fields come back
pub proof fn lemma_unmask<CS: CipherSuite>(mk: Seq<u8>, mnonce: Seq<u8>, m: MaskedResponse<CS>, pk: Seq<u8>, nonce: Seq<u8>, tag: Seq<u8>)
    requires
        pk.len() == npk::<CS>(), nonce.len() == 32, tag.len() == nh::<CS>(),
        masked_ser(m) == xor(rfc_pad::<CS>(mk, mnonce), pk + nonce + tag),
    ensures
        unmasked_pk::<CS>(mk, mnonce, m) == pk,
        unmasked_nonce::<CS>(mk, mnonce, m) == nonce,
        unmasked_tag::<CS>(mk, mnonce, m) == tag,
{
    <OprfHash<CS> as Digest>::lemma_expand_len(mk, mnonce + s_credential_response_pad(), npk::<CS>() + nn() + nh::<CS>());
    let pad = rfc_pad::<CS>(mk, mnonce);
    let x = pk + nonce + tag;
    lemma_xor_involution(pad, x);
    assert(unmasked::<CS>(mk, mnonce, m) == x);
    assert(x.subrange(0, npk::<CS>() as int) =~= pk);
    assert(x.subrange(npk::<CS>() as int, npk::<CS>() as int + 32) =~= nonce);
    assert(x.subrange(npk::<CS>() as int + 32, npk::<CS>() as int + 32 + nh::<CS>() as int) =~= tag);
}

// ------------------------------------------------------------------------------------------------ C01
/// what an honest run needs besides the lengths (negligible-probability exclusions, listed as assumptions):
/// the OPRF accepts the password, the per-credential OPRF key exists and is not 1 (otherwise the reflected-value check fires),
/// key derivations do not exhaust their 256 counters, the key-stretching function succeeds
pub open spec fn c01_pre<CS: CipherSuite, R: RngCore>(
    rs: R, r1: R, r2: R, r3: R, r4: R, pw: Seq<u8>, cred_id: Seq<u8>, ids: Identifiers, ctx: Option<&[u8]>, ksf: Option<&CS::Ksf>) -> bool
{
    let seed = tape(rs.id(), rs.pos() + nsk::<CS>(), nh::<CS>());
    let p = voprf::h2g::<CS::OprfCs>(pw);
    let k = rfc_oprf_key::<CS>(seed, cred_id);
    let y = <OprfHash<CS> as Digest>::h(voprf::finalize_input::<CS::OprfCs>(pw, <OprfGroup<CS> as Group>::smul(p->0, k->Ok_0)));
    let st = ksf_eff::<CS>(ksf).ksf_spec(y);
    let rp = rfc_randomized_pwd::<CS>(y, st->Ok_0);
    &&& pw.len() <= 65535 && ids_fit(ids) && cl_ctx_fit(ctx)
    &&& kp_ok::<CS::KeGroup, CS::OprfCs>(rs.id(), rs.pos()) && kp_ok::<CS::KeGroup, CS::OprfCs>(rs.id(), rs.pos() + nsk::<CS>() + nh::<CS>())
    &&& p is Some && k is Ok && st is Ok
    &&& forall|e: <OprfGroup<CS> as Group>::Elem| <OprfGroup<CS> as Group>::smul(e, k->Ok_0) != e
    &&& rfc_client_sk::<CS>(rp, tape(r2.id(), r2.pos(), 32)) is Ok
    &&& kp_ok::<CS::KeGroup, CS::OprfCs>(r3.id(), r3.pos() + voprf::scalar_draw_len::<CS::OprfCs>(r3.id(), r3.pos()))
    &&& kp_ok::<CS::KeGroup, CS::OprfCs>(r4.id(), r4.pos() + 32)
}

pub struct C01Out<CS: CipherSuite> {
    pub reg_export_key: Output<OprfHash<CS>>,
    pub reg_server_pk: PublicKey<CS::KeGroup>,
    pub setup_pk: PublicKey<CS::KeGroup>,
    pub login: ClientLoginFinishResult<CS>,
    pub server: ServerLoginFinishResult<CS>,
}

/// C01: an honest registration followed by an honest login, for every password / identifiers / context / KSF / tapes and every
/// suite (lengths and primitives are abstract): every step succeeds, both sides hold the same session key, and the client gets
/// back the export key and the server public key of its registration.
pub fn thm_c01_honest_run<CS: CipherSuite, R: RngCore + CryptoRng>(
    rs: &mut R, r1: &mut R, r2: &mut R, r3: &mut R, r4: &mut R,
    pw: &[u8], cred_id: &[u8], ids: Identifiers, ctx: Option<&[u8]>, ksf: Option<&CS::Ksf>,
) -> (r: Result<C01Out<CS>, ProtocolError>)
    requires
        c01_pre::<CS, R>(*old(rs), *old(r1), *old(r2), *old(r3), *old(r4), pw@, cred_id@, ids, ctx, ksf),
    ensures
        r is Ok,
        r->Ok_0.login.session_key == r->Ok_0.server.session_key,
        r->Ok_0.login.export_key == r->Ok_0.reg_export_key,
        r->Ok_0.login.server_s_pk == r->Ok_0.reg_server_pk,
        r->Ok_0.reg_server_pk == r->Ok_0.setup_pk,
        //@vacuity
{
    proof {
        broadcast use ga_axioms, seq_norm;
        lemma_lens::<CS>();
    }
    let ghost (s_id, s_pos) = (rs.id(), rs.pos());
    let ghost (r1_id, r1_pos) = (r1.id(), r1.pos());
    let ghost (r2_id, r2_pos) = (r2.id(), r2.pos());
    let ghost (r3_id, r3_pos) = (r3.id(), r3.pos());
    let ghost (r4_id, r4_pos) = (r4.id(), r4.pos());
    let ghost p = voprf::h2g::<CS::OprfCs>(pw@)->0;
    let ghost seed = tape(s_id, s_pos + nsk::<CS>(), nh::<CS>());
    let ghost k = rfc_oprf_key::<CS>(seed, cred_id@)->Ok_0;
    let ghost y = <OprfHash<CS> as Digest>::h(voprf::finalize_input::<CS::OprfCs>(pw@, <OprfGroup<CS> as Group>::smul(p, k)));
    let ghost rp = rfc_randomized_pwd::<CS>(y, ksf_eff::<CS>(ksf).ksf_spec(y)->Ok_0);

    // ---- setup and registration
    let setup = ServerSetup::<CS>::new(rs);
    let c_start = match ClientRegistration::<CS>::start(r1, pw) { Ok(v) => v, Err(e) => return Err(e) };
    let ghost b1 = c_start.state.oprf_client.blind_of();
    proof { voprf::axiom_scalar_of_tape_nonzero::<CS::OprfCs>(r1_id, r1_pos); }
    let s_start = match ServerRegistration::<CS>::start(&setup, c_start.message, cred_id) { Ok(v) => v, Err(e) => return Err(e) };
    let reg_server_pk = s_start.message.server_s_pk.clone();
    proof {
        lemma_oprf_output_blind_independent::<CS>(pw@, b1, k);
        assert(rp_of::<CS>(pw@, b1, s_start.message.evaluation_element.v(), ksf) == Ok::<Seq<u8>, ()>(rp));
    }
    let c_fin = match c_start.state.finish(r2, pw, s_start.message, ClientRegistrationFinishParameters::new(ids, ksf)) { Ok(v) => v, Err(e) => return Err(e) };
    let reg_export_key = c_fin.export_key;
    let record = ServerRegistration::<CS>::finish(c_fin.message);
    let ghost env_nonce = tape(r2_id, r2_pos, 32);
    let ghost csk = rfc_client_sk::<CS>(rp, env_nonce)->Ok_0;
    let ghost spk = setup.keypair.pk;
    let ghost spk_bytes = <CS::KeGroup as KeGroup>::ser_pk(spk.0);

    // ---- login
    let l_start = match ClientLogin::<CS>::start(r3, pw) { Ok(v) => v, Err(e) => return Err(e) };
    let ghost b2 = l_start.state.oprf_client.blind_of();
    proof { voprf::axiom_scalar_of_tape_nonzero::<CS::OprfCs>(r3_id, r3_pos); }
    let ghost cl_state = l_start.state;
    let sl = match ServerLogin::<CS>::start(r4, &setup, Some(record), l_start.message, cred_id,
        ServerLoginStartParameters { context: ctx, identifiers: ids }) { Ok(v) => v, Err(e) => return Err(e) };
    let ghost resp = sl.message;
    let params = ClientLoginFinishParameters::<CS>::new(ctx, ids, ksf);
    proof {
        // (1) same randomized password
        lemma_oprf_output_blind_independent::<CS>(pw@, b2, k);
        assert(rp_of::<CS>(pw@, b2, resp.evaluation_element.v(), ksf) == Ok::<Seq<u8>, ()>(rp));
        // (2) unmasking returns the server key and the registered envelope
        <CS::KeGroup as KeGroup>::lemma_ser_pk_len(spk.0);
        <OprfHash<CS> as Digest>::lemma_hmac_len(rfc_auth_key::<CS>(rp, env_nonce), env_nonce + rfc_cleartext_credentials(spk_bytes, eff_id(ids.server, spk_bytes),
            eff_id(ids.client, <CS::KeGroup as KeGroup>::ser_pk(<CS::KeGroup as KeGroup>::pk_of(csk)))));
        let tag = rfc_envelope_tag::<CS>(rp, env_nonce, spk_bytes, ids);
        let mk = rfc_masking_key::<CS>(rp);
        lemma_unmask::<CS>(mk, resp.masking_nonce@, resp.masked_response, spk_bytes, env_nonce, tag);
        <CS::KeGroup as KeGroup>::lemma_derive_nonzero::<CS::OprfCs>(tape(s_id, s_pos, nsk::<CS>()));
        <CS::KeGroup as KeGroup>::lemma_pk_roundtrip(setup.keypair.sk.0);
        assert(cl_server_pk::<CS>(cl_state, pw@, resp, params) == Some(spk.0));
        assert(cl_env_nonce::<CS>(cl_state, pw@, resp, params) == env_nonce);
        assert(cl_client_sk::<CS>(cl_state, pw@, resp, params) == csk);
        // (3) the three Diffie-Hellman values agree
        let cesk = cl_state.ke1_state.client_e_sk.0;
        let sesk = kp_sk::<CS::KeGroup, CS::OprfCs>(r4_id, r4_pos + 32);
        <CS::KeGroup as KeGroup>::lemma_dh_sym(sesk, cesk);
        <CS::KeGroup as KeGroup>::lemma_dh_sym(setup.keypair.sk.0, cesk);
        <CS::KeGroup as KeGroup>::lemma_dh_sym(sesk, csk);
        // (4) the reflected-value check does not fire
        assert(cl_state.credential_request.blinded_element.v() != resp.evaluation_element.v());
        assert(cl_accepts::<CS>(cl_state, pw@, resp, params));
    }
    let login = match l_start.state.finish(pw, sl.message, params) { Ok(v) => v, Err(e) => return Err(e) };
    let server = match sl.state.finish(login.message.clone()) { Ok(v) => v, Err(e) => return Err(e) };
    Ok(C01Out { reg_export_key, reg_server_pk, setup_pk: setup.keypair.public().clone(), login, server })
}

// ------------------------------------------------------------------------------------------------ idealisation hypotheses (never axioms)
/// collision-freedom of the suite's primitives, used only as explicit `requires` of theorems (DESIGN.md 2.7)
pub open spec fn cf_hash<D: Hash>() -> bool { forall|a: Seq<u8>, b: Seq<u8>| #[trigger] D::h(a) == #[trigger] D::h(b) ==> a == b }
pub open spec fn cf_hmac<D: Hash>() -> bool {
    forall|k1: Seq<u8>, m1: Seq<u8>, k2: Seq<u8>, m2: Seq<u8>| #[trigger] D::hmac(k1, m1) == #[trigger] D::hmac(k2, m2) ==> k1 == k2 && m1 == m2
}
pub open spec fn cf_extract<D: Hash>() -> bool {
    forall|s1: Seq<u8>, i1: Seq<u8>, s2: Seq<u8>, i2: Seq<u8>| #[trigger] D::extract(s1, i1) == #[trigger] D::extract(s2, i2) ==> s1 == s2 && i1 == i2
}
pub open spec fn cf_expand<D: Hash>() -> bool {
    forall|p1: Seq<u8>, i1: Seq<u8>, p2: Seq<u8>, i2: Seq<u8>, n: nat| n >= 32 && #[trigger] D::expand(p1, i1, n) == #[trigger] D::expand(p2, i2, n) ==> p1 == p2 && i1 == i2
}

// ------------------------------------------------------------------------------------------------ framing is injective (proved)
pub proof fn lemma_i2osp2_inj(n: nat, m: nat)
    requires n <= 65535, m <= 65535, i2osp(n, 2) == i2osp(m, 2)
    ensures n == m
{
    lemma_i2osp2(n); lemma_i2osp2(m);
    assert(i2osp(n, 2)[0] == i2osp(m, 2)[0]);
    assert(i2osp(n, 2)[1] == i2osp(m, 2)[1]);
    assert(n == (n / 256) * 256 + n % 256) by (nonlinear_arith);
    assert(m == (m / 256) * 256 + m % 256) by (nonlinear_arith);
    assert(n / 256 <= 255) by (nonlinear_arith) requires n <= 65535;
    assert(m / 256 <= 255) by (nonlinear_arith) requires m <= 65535;
}
/// a 2-byte-length-prefixed field followed by anything determines the field and the rest: bytes cannot move across the boundary
pub proof fn lemma_frame_split(a: Seq<u8>, x: Seq<u8>, b: Seq<u8>, y: Seq<u8>)
    requires a.len() <= 65535, b.len() <= 65535, frame2(a) + x == frame2(b) + y
    ensures a == b, x == y
{
    lemma_i2osp2(a.len()); lemma_i2osp2(b.len());
    let l = frame2(a) + x;
    let r = frame2(b) + y;
    assert(l[0] == i2osp(a.len(), 2)[0] && l[1] == i2osp(a.len(), 2)[1]);
    assert(r[0] == i2osp(b.len(), 2)[0] && r[1] == i2osp(b.len(), 2)[1]);
    assert(i2osp(a.len(), 2) =~= i2osp(b.len(), 2));
    lemma_i2osp2_inj(a.len(), b.len());
    assert(a =~= l.subrange(2, 2 + a.len() as int));
    assert(b =~= r.subrange(2, 2 + b.len() as int));
    assert(x =~= l.subrange(2 + a.len() as int, l.len() as int));
    assert(y =~= r.subrange(2 + b.len() as int, r.len() as int));
}
pub proof fn lemma_fixed_split(a: Seq<u8>, x: Seq<u8>, b: Seq<u8>, y: Seq<u8>)
    requires a.len() == b.len(), a + x == b + y
    ensures a == b, x == y
{
    let l = a + x; let r = b + y;
    assert(a =~= l.subrange(0, a.len() as int));
    assert(b =~= r.subrange(0, b.len() as int));
    assert(x =~= l.subrange(a.len() as int, l.len() as int));
    assert(y =~= r.subrange(b.len() as int, r.len() as int));
}
/// CleartextCredentials are injective in (server key, server identity, client identity)
pub proof fn lemma_cleartext_injective(pk: Seq<u8>, ids: Seq<u8>, idu: Seq<u8>, pk2: Seq<u8>, ids2: Seq<u8>, idu2: Seq<u8>)
    requires pk.len() == pk2.len(), ids.len() <= 65535, idu.len() <= 65535, ids2.len() <= 65535, idu2.len() <= 65535,
             rfc_cleartext_credentials(pk, ids, idu) == rfc_cleartext_credentials(pk2, ids2, idu2)
    ensures pk == pk2, ids == ids2, idu == idu2
{
    broadcast use seq_norm;
    lemma_fixed_split(pk, frame2(ids) + frame2(idu), pk2, frame2(ids2) + frame2(idu2));
    lemma_frame_split(ids, frame2(idu), ids2, frame2(idu2));
    lemma_frame_split(idu, Seq::empty(), idu2, Seq::empty());
}
/// the 3DH preamble is injective in every one of its fields (variable fields are length-prefixed, the others have suite-fixed lengths)
pub proof fn lemma_preamble_injective(
    c1: Seq<u8>, u1: Seq<u8>, k1: Seq<u8>, s1: Seq<u8>, l1: Seq<u8>, n1: Seq<u8>, e1: Seq<u8>,
    c2: Seq<u8>, u2: Seq<u8>, k2: Seq<u8>, s2: Seq<u8>, l2: Seq<u8>, n2: Seq<u8>, e2: Seq<u8>)
    requires
        c1.len() <= 65535, c2.len() <= 65535, u1.len() <= 65535, u2.len() <= 65535, s1.len() <= 65535, s2.len() <= 65535,
        k1.len() == k2.len(), l1.len() == l2.len(), n1.len() == n2.len(),
        rfc_preamble(c1, u1, k1, s1, l1, n1, e1) == rfc_preamble(c2, u2, k2, s2, l2, n2, e2),
    ensures c1 == c2, u1 == u2, k1 == k2, s1 == s2, l1 == l2, n1 == n2, e1 == e2
{
    broadcast use seq_norm;
    let t1 = frame2(c1) + (frame2(u1) + (k1 + (frame2(s1) + (l1 + (n1 + e1)))));
    let t2 = frame2(c2) + (frame2(u2) + (k2 + (frame2(s2) + (l2 + (n2 + e2)))));
    assert(rfc_preamble(c1, u1, k1, s1, l1, n1, e1) == s_opaquev1() + t1);
    assert(rfc_preamble(c2, u2, k2, s2, l2, n2, e2) == s_opaquev1() + t2);
    lemma_fixed_split(s_opaquev1(), t1, s_opaquev1(), t2);
    lemma_frame_split(c1, frame2(u1) + (k1 + (frame2(s1) + (l1 + (n1 + e1)))), c2, frame2(u2) + (k2 + (frame2(s2) + (l2 + (n2 + e2)))));
    lemma_frame_split(u1, k1 + (frame2(s1) + (l1 + (n1 + e1))), u2, k2 + (frame2(s2) + (l2 + (n2 + e2))));
    lemma_fixed_split(k1, frame2(s1) + (l1 + (n1 + e1)), k2, frame2(s2) + (l2 + (n2 + e2)));
    lemma_frame_split(s1, l1 + (n1 + e1), s2, l2 + (n2 + e2));
    lemma_fixed_split(l1, n1 + e1, l2, n2 + e2);
    lemma_fixed_split(n1, e1, n2, e2);
}

// ------------------------------------------------------------------------------------------------ settings shared by C02 / C04 / C05 / C06 / C07
/// a password file produced by an honest registration with randomized password `rp`, server key bytes `spk` and identities `ids`
pub open spec fn registered<CS: CipherSuite>(rec: RegistrationUpload<CS>, rp: Seq<u8>, spk: Seq<u8>, ids: Identifiers) -> bool {
    &&& rec.masking_key@ == rfc_masking_key::<CS>(rp)
    &&& rfc_client_sk::<CS>(rp, rec.envelope.nonce@) is Ok
    &&& rec.envelope.hmac@ == rfc_envelope_tag::<CS>(rp, rec.envelope.nonce@, spk, ids)
    &&& rec.client_s_pk.0 == <CS::KeGroup as KeGroup>::pk_of(rfc_client_sk::<CS>(rp, rec.envelope.nonce@)->Ok_0)
}
/// a credential response whose masked part was produced by a server holding record `rec` and static key bytes `spk`
pub open spec fn masked_by<CS: CipherSuite>(resp: CredentialResponse<CS>, rec: RegistrationUpload<CS>, spk: Seq<u8>) -> bool {
    masked_ser(resp.masked_response) == xor(rfc_pad::<CS>(rec.masking_key@, resp.masking_nonce@), spk + rec.envelope.nonce@ + rec.envelope.hmac@)
}

// ------------------------------------------------------------------------------------------------ C02
/// the randomized password is an injective function of the password (for a fixed OPRF key and KSF), given collision-freedom of
/// Hash and Extract: the password sits length-prefixed in the Finalize hash input, so prefixes / extensions / empty-vs-non-empty differ
pub proof fn lemma_c02_rp_differs<CS: CipherSuite>(pw1: Seq<u8>, e1: <OprfGroup<CS> as Group>::Elem, st1: Seq<u8>, pw2: Seq<u8>, e2: <OprfGroup<CS> as Group>::Elem, st2: Seq<u8>)
    requires
        cf_hash::<OprfHash<CS>>(), cf_extract::<OprfHash<CS>>(),
        pw1 != pw2, pw1.len() <= 65535, pw2.len() <= 65535,
    ensures ({
        let y1 = <OprfHash<CS> as Digest>::h(voprf::finalize_input::<CS::OprfCs>(pw1, e1));
        let y2 = <OprfHash<CS> as Digest>::h(voprf::finalize_input::<CS::OprfCs>(pw2, e2));
        y1 != y2 && rfc_randomized_pwd::<CS>(y1, st1) != rfc_randomized_pwd::<CS>(y2, st2)
    })
{
    broadcast use seq_norm;
    let i1 = voprf::finalize_input::<CS::OprfCs>(pw1, e1);
    let i2 = voprf::finalize_input::<CS::OprfCs>(pw2, e2);
    lemma_i2osp2(pw1.len()); lemma_i2osp2(pw2.len());
    assert(voprf::i2osp2(pw1.len()) == i2osp(pw1.len(), 2));
    assert(voprf::i2osp2(pw2.len()) == i2osp(pw2.len(), 2));
    let t1 = voprf::i2osp2(<OprfGroup<CS> as Group>::ElemLen::n()) + <OprfGroup<CS> as Group>::ser_elem(e1) + voprf::str_finalize();
    let t2 = voprf::i2osp2(<OprfGroup<CS> as Group>::ElemLen::n()) + <OprfGroup<CS> as Group>::ser_elem(e2) + voprf::str_finalize();
    assert(i1 == frame2(pw1) + t1);
    assert(i2 == frame2(pw2) + t2);
    if i1 == i2 { lemma_frame_split(pw1, t1, pw2, t2); }
    let y1 = <OprfHash<CS> as Digest>::h(i1);
    let y2 = <OprfHash<CS> as Digest>::h(i2);
    assert(y1 != y2);
    <OprfHash<CS> as Digest>::lemma_h_len(i1);
    <OprfHash<CS> as Digest>::lemma_h_len(i2);
    if y1 + st1 == y2 + st2 { lemma_fixed_split(y1, st1, y2, st2); }
}
/// the one cryptographic step that is not a property of a single call: decrypting the masked credentials with the pad of a DIFFERENT
/// randomized password never yields bytes that carry a valid envelope tag under that different password (random-oracle argument; named assumption)
pub open spec fn h_env_fresh<CS: CipherSuite>(rp_reg: Seq<u8>, rp_login: Seq<u8>, mnonce: Seq<u8>, x: Seq<u8>, ids: Identifiers) -> bool {
    let u = xor(rfc_pad::<CS>(rfc_masking_key::<CS>(rp_login), mnonce), xor(rfc_pad::<CS>(rfc_masking_key::<CS>(rp_reg), mnonce), x));
    let pk = u.subrange(0, npk::<CS>() as int);
    let nonce = u.subrange(npk::<CS>() as int, npk::<CS>() as int + 32);
    let tag = u.subrange(npk::<CS>() as int + 32, npk::<CS>() as int + 32 + nh::<CS>() as int);
    forall|pk_dec: <CS::KeGroup as KeGroup>::Pk| tag != #[trigger] rfc_envelope_tag::<CS>(rp_login, nonce, <CS::KeGroup as KeGroup>::ser_pk(pk_dec), ids)
}
/// C02 (envelope alternative): a client whose randomized password differs from the registered one cannot pass the envelope gate
pub proof fn thm_c02_reject_env<CS: CipherSuite>(st: ClientLogin<CS>, pw2: Seq<u8>, resp: CredentialResponse<CS>, p: ClientLoginFinishParameters<CS>,
        rec: RegistrationUpload<CS>, rp: Seq<u8>, spk: Seq<u8>, ids_reg: Identifiers)
    requires
        registered::<CS>(rec, rp, spk, ids_reg), masked_by::<CS>(resp, rec, spk),
        cl_rp::<CS>(st, pw2, resp, p) != rp,
        h_env_fresh::<CS>(rp, cl_rp::<CS>(st, pw2, resp, p), resp.masking_nonce@, spk + rec.envelope.nonce@ + rec.envelope.hmac@, p.identifiers),
    ensures
        !cl_env_ok::<CS>(st, pw2, resp, p),
        !cl_accepts::<CS>(st, pw2, resp, p),
        //@vacuity
{
}
/// C02 (server-MAC alternative): the server's MAC was computed over DH values of the REGISTERED client key; a client that derived a
/// different randomized password holds different key material, and (named assumption) the honest MAC does not verify under it
pub open spec fn h_mac_fresh<CS: CipherSuite>(st: ClientLogin<CS>, pw2: Seq<u8>, resp: CredentialResponse<CS>, p: ClientLoginFinishParameters<CS>) -> bool {
    resp.ke2_message.mac@ != rfc_server_mac::<OprfHash<CS>>(cl_prk::<CS>(st, pw2, resp, p), cl_preamble::<CS>(st, pw2, resp, p))
}
pub proof fn thm_c02_reject_mac<CS: CipherSuite>(st: ClientLogin<CS>, pw2: Seq<u8>, resp: CredentialResponse<CS>, p: ClientLoginFinishParameters<CS>)
    requires h_mac_fresh::<CS>(st, pw2, resp, p),
    ensures !cl_mac_ok::<CS>(st, pw2, resp, p), !cl_accepts::<CS>(st, pw2, resp, p),
        //@vacuity
{
}
/// C02 on the real function: whenever the envelope gate (resp. the server-MAC gate) is false, the finish step returns the invalid-login
/// error (given encodable lengths and a successful key derivation) and — by its result type — no key, no export key, no finalization message
pub fn thm_c02_real_env<CS: CipherSuite>(st: ClientLogin<CS>, pw2: &[u8], resp: CredentialResponse<CS>, p: ClientLoginFinishParameters<CS>) -> (r: Result<ClientLoginFinishResult<CS>, ProtocolError>)
    requires
        !cl_env_ok::<CS>(st, pw2@, resp, p),
        st.credential_request.blinded_element.v() != resp.evaluation_element.v(),
        rp_of::<CS>(pw2@, st.oprf_client.blind_of(), resp.evaluation_element.v(), p.ksf) is Ok,
        cl_ctx_fit(p.context), ids_fit(p.identifiers),
        cl_server_pk::<CS>(st, pw2@, resp, p) is Some ==> rfc_client_sk::<CS>(cl_rp::<CS>(st, pw2@, resp, p), cl_env_nonce::<CS>(st, pw2@, resp, p)) is Ok,
    ensures
        r is Err, r->Err_0 == ProtocolError::<Infallible>::InvalidLoginError,
        //@vacuity
{
    st.finish(pw2, resp, p)
}
pub fn thm_c02_real_mac<CS: CipherSuite>(st: ClientLogin<CS>, pw2: &[u8], resp: CredentialResponse<CS>, p: ClientLoginFinishParameters<CS>) -> (r: Result<ClientLoginFinishResult<CS>, ProtocolError>)
    requires
        !cl_mac_ok::<CS>(st, pw2@, resp, p),
        st.credential_request.blinded_element.v() != resp.evaluation_element.v(),
        rp_of::<CS>(pw2@, st.oprf_client.blind_of(), resp.evaluation_element.v(), p.ksf) is Ok,
        cl_ctx_fit(p.context), ids_fit(p.identifiers),
        cl_server_pk::<CS>(st, pw2@, resp, p) is Some ==> rfc_client_sk::<CS>(cl_rp::<CS>(st, pw2@, resp, p), cl_env_nonce::<CS>(st, pw2@, resp, p)) is Ok,
    ensures
        r is Err, r->Err_0 == ProtocolError::<Infallible>::InvalidLoginError,
        //@vacuity
{
    st.finish(pw2, resp, p)
}

// ------------------------------------------------------------------------------------------------ transcript agreement (C04 / C05 / C07)
/// If the MAC in a response the client ACCEPTED is a server MAC computed over some transcript (ctx, id_u, ke1, id_s, l2, nonce, epk),
/// then — given collision-freedom of HMAC and Hash — that transcript is exactly the client's: same context, same effective identities,
/// same request bytes, same credential-response bytes, same server nonce and ephemeral key; and both sides hold the same key-schedule input.
pub proof fn thm_transcript_agreement<CS: CipherSuite>(st: ClientLogin<CS>, pw: Seq<u8>, resp: CredentialResponse<CS>, p: ClientLoginFinishParameters<CS>,
        prk_s: Seq<u8>, ctx: Seq<u8>, idu: Seq<u8>, ke1: Seq<u8>, ids: Seq<u8>, l2: Seq<u8>, ns: Seq<u8>, epk: Seq<u8>)
    requires
        cf_hash::<OprfHash<CS>>(), cf_hmac::<OprfHash<CS>>(),
        cl_mac_ok::<CS>(st, pw, resp, p),
        resp.ke2_message.mac@ == rfc_server_mac::<OprfHash<CS>>(prk_s, rfc_preamble(ctx, idu, ke1, ids, l2, ns, epk)),
        ctx.len() <= 65535, idu.len() <= 65535, ids.len() <= 65535, ids_fit(p.identifiers),
        ke1.len() == noe::<CS>() + 32 + npk::<CS>(), l2.len() == noe::<CS>() + 32 + (32 + nh::<CS>() + npk::<CS>()), ns.len() == 32,
    ensures
        cl_preamble::<CS>(st, pw, resp, p) == rfc_preamble(ctx, idu, ke1, ids, l2, ns, epk),
        ctx_of(p.context) == ctx,
        eff_id(p.identifiers.client, <CS::KeGroup as KeGroup>::ser_pk(<CS::KeGroup as KeGroup>::pk_of(cl_client_sk::<CS>(st, pw, resp, p)))) == idu,
        eff_id(p.identifiers.server, <CS::KeGroup as KeGroup>::ser_pk(cl_server_pk::<CS>(st, pw, resp, p)->0)) == ids,
        <OprfGroup<CS> as Group>::ser_elem(st.credential_request.blinded_element.v()) + st.credential_request.ke1_message.client_nonce@
            + <CS::KeGroup as KeGroup>::ser_pk(st.credential_request.ke1_message.client_e_pk.0) == ke1,
        <OprfGroup<CS> as Group>::ser_elem(resp.evaluation_element.v()) + resp.masking_nonce@ + masked_ser(resp.masked_response) == l2,
        resp.ke2_message.server_nonce@ == ns,
        <CS::KeGroup as KeGroup>::ser_pk(resp.ke2_message.server_e_pk.0) == epk,
        rfc_km2::<OprfHash<CS>>(cl_prk::<CS>(st, pw, resp, p), <OprfHash<CS> as Digest>::h(cl_preamble::<CS>(st, pw, resp, p)))
            == rfc_km2::<OprfHash<CS>>(prk_s, <OprfHash<CS> as Digest>::h(cl_preamble::<CS>(st, pw, resp, p))),
        //@vacuity
{
    broadcast use ga_axioms;
    lemma_lens::<CS>();
    let pre_c = cl_preamble::<CS>(st, pw, resp, p);
    let pre_s = rfc_preamble(ctx, idu, ke1, ids, l2, ns, epk);
    // HMAC collision-freedom: same key and same hashed transcript; Hash collision-freedom: same transcript
    assert(<OprfHash<CS> as Digest>::h(pre_c) == <OprfHash<CS> as Digest>::h(pre_s));
    assert(pre_c == pre_s);
    let spk_bytes = <CS::KeGroup as KeGroup>::ser_pk(cl_server_pk::<CS>(st, pw, resp, p)->0);
    let cpk_bytes = <CS::KeGroup as KeGroup>::ser_pk(<CS::KeGroup as KeGroup>::pk_of(cl_client_sk::<CS>(st, pw, resp, p)));
    let creq = <OprfGroup<CS> as Group>::ser_elem(st.credential_request.blinded_element.v()) + st.credential_request.ke1_message.client_nonce@
        + <CS::KeGroup as KeGroup>::ser_pk(st.credential_request.ke1_message.client_e_pk.0);
    let l2c = <OprfGroup<CS> as Group>::ser_elem(resp.evaluation_element.v()) + resp.masking_nonce@ + masked_ser(resp.masked_response);
    <OprfGroup<CS> as Group>::lemma_ser_elem_len(st.credential_request.blinded_element.v());
    <OprfGroup<CS> as Group>::lemma_ser_elem_len(resp.evaluation_element.v());
    <CS::KeGroup as KeGroup>::lemma_ser_pk_len(st.credential_request.ke1_message.client_e_pk.0);
    <CS::KeGroup as KeGroup>::lemma_ser_pk_len(cl_server_pk::<CS>(st, pw, resp, p)->0);
    <CS::KeGroup as KeGroup>::lemma_ser_pk_len(<CS::KeGroup as KeGroup>::pk_of(cl_client_sk::<CS>(st, pw, resp, p)));
    let idu_c = eff_id(p.identifiers.client, cpk_bytes);
    let ids_c = eff_id(p.identifiers.server, spk_bytes);
    lemma_preamble_injective(ctx_of(p.context), idu_c, creq, ids_c, l2c, resp.ke2_message.server_nonce@, <CS::KeGroup as KeGroup>::ser_pk(resp.ke2_message.server_e_pk.0),
        ctx, idu, ke1, ids, l2, ns, epk);
}

// ------------------------------------------------------------------------------------------------ C04
/// C04 (MAC field): a response that differs from an accepted one ONLY in the server MAC is rejected — exact, no idealisation
pub proof fn thm_c04_mac_only<CS: CipherSuite>(st: ClientLogin<CS>, pw: Seq<u8>, r0: CredentialResponse<CS>, r1: CredentialResponse<CS>, p: ClientLoginFinishParameters<CS>)
    requires
        cl_accepts::<CS>(st, pw, r0, p),
        r1.evaluation_element == r0.evaluation_element, r1.masking_nonce == r0.masking_nonce, r1.masked_response == r0.masked_response,
        r1.ke2_message.server_nonce == r0.ke2_message.server_nonce, r1.ke2_message.server_e_pk == r0.ke2_message.server_e_pk,
        r1.ke2_message.mac@ != r0.ke2_message.mac@,
    ensures !cl_mac_ok::<CS>(st, pw, r1, p), !cl_accepts::<CS>(st, pw, r1, p),
        //@vacuity
{
    assert(cl_prk::<CS>(st, pw, r1, p) == cl_prk::<CS>(st, pw, r0, p));
    assert(cl_preamble::<CS>(st, pw, r1, p) == cl_preamble::<CS>(st, pw, r0, p));
}
/// C04 (every other field): if the client accepts a response carrying the MAC the server computed for its own response `r0` to this
/// client's request, then every transcript field of the accepted response equals r0's: the OPRF evaluation, the masking nonce, the masked
/// credentials, the server nonce and the server ephemeral key (given collision-freedom of HMAC and Hash).  Contrapositive: any altered byte
/// in one of those fields, with the MAC left as it was, is rejected; so is a response made for another request.
pub proof fn thm_c04_fields<CS: CipherSuite>(st: ClientLogin<CS>, pw: Seq<u8>, r1: CredentialResponse<CS>, p: ClientLoginFinishParameters<CS>,
        prk_s: Seq<u8>, ctx_s: Seq<u8>, idu_s: Seq<u8>, ke1_s: Seq<u8>, ids_s: Seq<u8>, r0: CredentialResponse<CS>)
    requires
        cf_hash::<OprfHash<CS>>(), cf_hmac::<OprfHash<CS>>(),
        cl_mac_ok::<CS>(st, pw, r1, p), ids_fit(p.identifiers),
        // the MAC is the one the server computed over ITS view: its context/identities, the request it received (ke1_s) and its response r0
        r1.ke2_message.mac@ == rfc_server_mac::<OprfHash<CS>>(prk_s, rfc_preamble(ctx_s, idu_s, ke1_s, ids_s,
            <OprfGroup<CS> as Group>::ser_elem(r0.evaluation_element.v()) + r0.masking_nonce@ + masked_ser(r0.masked_response),
            r0.ke2_message.server_nonce@, <CS::KeGroup as KeGroup>::ser_pk(r0.ke2_message.server_e_pk.0))),
        ctx_s.len() <= 65535, idu_s.len() <= 65535, ids_s.len() <= 65535, ke1_s.len() == noe::<CS>() + 32 + npk::<CS>(),
    ensures
        <OprfGroup<CS> as Group>::ser_elem(r1.evaluation_element.v()) == <OprfGroup<CS> as Group>::ser_elem(r0.evaluation_element.v()),
        r1.masking_nonce@ == r0.masking_nonce@,
        masked_ser(r1.masked_response) == masked_ser(r0.masked_response),
        r1.ke2_message.server_nonce@ == r0.ke2_message.server_nonce@,
        <CS::KeGroup as KeGroup>::ser_pk(r1.ke2_message.server_e_pk.0) == <CS::KeGroup as KeGroup>::ser_pk(r0.ke2_message.server_e_pk.0),
        // ... and it was made for THIS client's request
        <OprfGroup<CS> as Group>::ser_elem(st.credential_request.blinded_element.v()) + st.credential_request.ke1_message.client_nonce@
            + <CS::KeGroup as KeGroup>::ser_pk(st.credential_request.ke1_message.client_e_pk.0) == ke1_s,
        //@vacuity
{
    broadcast use ga_axioms;
    lemma_lens::<CS>();
    let l2_0 = <OprfGroup<CS> as Group>::ser_elem(r0.evaluation_element.v()) + r0.masking_nonce@ + masked_ser(r0.masked_response);
    let l2_1 = <OprfGroup<CS> as Group>::ser_elem(r1.evaluation_element.v()) + r1.masking_nonce@ + masked_ser(r1.masked_response);
    <OprfGroup<CS> as Group>::lemma_ser_elem_len(r0.evaluation_element.v());
    <OprfGroup<CS> as Group>::lemma_ser_elem_len(r1.evaluation_element.v());
    thm_transcript_agreement::<CS>(st, pw, r1, p, prk_s, ctx_s, idu_s, ke1_s, ids_s, l2_0, r0.ke2_message.server_nonce@, <CS::KeGroup as KeGroup>::ser_pk(r0.ke2_message.server_e_pk.0));
    assert(l2_1 == l2_0);
    // split l2 into its three fixed-length fields
    assert(l2_1 =~= <OprfGroup<CS> as Group>::ser_elem(r1.evaluation_element.v()) + (r1.masking_nonce@ + masked_ser(r1.masked_response)));
    assert(l2_0 =~= <OprfGroup<CS> as Group>::ser_elem(r0.evaluation_element.v()) + (r0.masking_nonce@ + masked_ser(r0.masked_response)));
    lemma_fixed_split(<OprfGroup<CS> as Group>::ser_elem(r1.evaluation_element.v()), r1.masking_nonce@ + masked_ser(r1.masked_response),
        <OprfGroup<CS> as Group>::ser_elem(r0.evaluation_element.v()), r0.masking_nonce@ + masked_ser(r0.masked_response));
    lemma_fixed_split(r1.masking_nonce@, masked_ser(r1.masked_response), r0.masking_nonce@, masked_ser(r0.masked_response));
}

// ------------------------------------------------------------------------------------------------ C05
/// C05 (login-time agreement): if the client accepts a response whose MAC the server computed under context `ctx_s` and effective
/// identities (idu_s, ids_s), then the client's context and effective identities are byte-identical to the server's.  Because the
/// preamble is injective (lemma_preamble_injective, proved), moving bytes between context / client identity / server identity or changing
/// a length across 255/256 or 65535 never turns a mismatch into a match.
pub proof fn thm_c05_login_binding<CS: CipherSuite>(st: ClientLogin<CS>, pw: Seq<u8>, resp: CredentialResponse<CS>, p: ClientLoginFinishParameters<CS>,
        prk_s: Seq<u8>, ctx_s: Seq<u8>, idu_s: Seq<u8>, ke1_s: Seq<u8>, ids_s: Seq<u8>)
    requires
        cf_hash::<OprfHash<CS>>(), cf_hmac::<OprfHash<CS>>(),
        cl_mac_ok::<CS>(st, pw, resp, p), ids_fit(p.identifiers),
        resp.ke2_message.mac@ == rfc_server_mac::<OprfHash<CS>>(prk_s, rfc_preamble(ctx_s, idu_s, ke1_s, ids_s,
            <OprfGroup<CS> as Group>::ser_elem(resp.evaluation_element.v()) + resp.masking_nonce@ + masked_ser(resp.masked_response),
            resp.ke2_message.server_nonce@, <CS::KeGroup as KeGroup>::ser_pk(resp.ke2_message.server_e_pk.0))),
        ctx_s.len() <= 65535, idu_s.len() <= 65535, ids_s.len() <= 65535, ke1_s.len() == noe::<CS>() + 32 + npk::<CS>(),
    ensures
        ctx_of(p.context) == ctx_s,
        eff_id(p.identifiers.client, <CS::KeGroup as KeGroup>::ser_pk(<CS::KeGroup as KeGroup>::pk_of(cl_client_sk::<CS>(st, pw, resp, p)))) == idu_s,
        eff_id(p.identifiers.server, <CS::KeGroup as KeGroup>::ser_pk(cl_server_pk::<CS>(st, pw, resp, p)->0)) == ids_s,
        //@vacuity
{
    broadcast use ga_axioms;
    lemma_lens::<CS>();
    <OprfGroup<CS> as Group>::lemma_ser_elem_len(resp.evaluation_element.v());
    thm_transcript_agreement::<CS>(st, pw, resp, p, prk_s, ctx_s, idu_s, ke1_s, ids_s,
        <OprfGroup<CS> as Group>::ser_elem(resp.evaluation_element.v()) + resp.masking_nonce@ + masked_ser(resp.masked_response),
        resp.ke2_message.server_nonce@, <CS::KeGroup as KeGroup>::ser_pk(resp.ke2_message.server_e_pk.0));
}
/// C05 (registration-time sealing) and C06: if the client passes the envelope gate on the honestly masked record of a registration made
/// with (rp, spk_reg, ids_reg) — same randomized password — then the server key it unmasked and its effective identities are the sealed ones.
pub proof fn thm_c05_envelope_binding<CS: CipherSuite>(st: ClientLogin<CS>, pw: Seq<u8>, resp: CredentialResponse<CS>, p: ClientLoginFinishParameters<CS>,
        rec: RegistrationUpload<CS>, spk_reg: Seq<u8>, ids_reg: Identifiers, spk_live: Seq<u8>)
    requires
        cf_hmac::<OprfHash<CS>>(),
        registered::<CS>(rec, cl_rp::<CS>(st, pw, resp, p), spk_reg, ids_reg), ids_fit(ids_reg),
        masked_by::<CS>(resp, rec, spk_live), spk_live.len() == npk::<CS>(), spk_reg.len() == npk::<CS>(),
        cl_env_ok::<CS>(st, pw, resp, p),
    ensures
        // C06: the key the server masked (and the client will report) is the key sealed at registration
        <CS::KeGroup as KeGroup>::ser_pk(cl_server_pk::<CS>(st, pw, resp, p)->0) == spk_reg,
        spk_live == spk_reg,
        // C05: the effective identities at login equal the sealed ones
        eff_id(p.identifiers.server, spk_reg) == eff_id(ids_reg.server, spk_reg),
        ({ let cpk = <CS::KeGroup as KeGroup>::ser_pk(rec.client_s_pk.0); eff_id(p.identifiers.client, cpk) == eff_id(ids_reg.client, cpk) }),
        //@vacuity
{
    broadcast use ga_axioms;
    lemma_lens::<CS>();
    let rp = cl_rp::<CS>(st, pw, resp, p);
    let mk = rfc_masking_key::<CS>(rp);
    let nonce = rec.envelope.nonce@;
    let tag = rec.envelope.hmac@;
    lemma_unmask::<CS>(mk, resp.masking_nonce@, resp.masked_response, spk_live, nonce, tag);
    let pk_dec = cl_server_pk::<CS>(st, pw, resp, p)->0;
    <CS::KeGroup as KeGroup>::lemma_de_pk_canonical(spk_live);
    let csk = rfc_client_sk::<CS>(rp, nonce)->Ok_0;
    let cpk = <CS::KeGroup as KeGroup>::ser_pk(<CS::KeGroup as KeGroup>::pk_of(csk));
    <CS::KeGroup as KeGroup>::lemma_ser_pk_len(<CS::KeGroup as KeGroup>::pk_of(csk));
    // the tag verified by the client == the tag sealed at registration; HMAC collision-freedom gives equal MAC inputs
    let ct_login = rfc_cleartext_credentials(spk_live, eff_id(p.identifiers.server, spk_live), eff_id(p.identifiers.client, cpk));
    let ct_reg = rfc_cleartext_credentials(spk_reg, eff_id(ids_reg.server, spk_reg), eff_id(ids_reg.client, cpk));
    assert(nonce + ct_login == nonce + ct_reg);
    lemma_fixed_split(nonce, ct_login, nonce, ct_reg);
    lemma_cleartext_injective(spk_live, eff_id(p.identifiers.server, spk_live), eff_id(p.identifiers.client, cpk),
        spk_reg, eff_id(ids_reg.server, spk_reg), eff_id(ids_reg.client, cpk));
}

// ------------------------------------------------------------------------------------------------ C07
/// the MAC key Km2 determines the key-schedule input (given collision-freedom of Expand)
pub proof fn lemma_km2_injective<D: Hash>(prk1: Seq<u8>, prk2: Seq<u8>, th: Seq<u8>)
    requires cf_expand::<D>(), D::OutputSize::n() >= 32, rfc_km2::<D>(prk1, th) == rfc_km2::<D>(prk2, th)
    ensures prk1 == prk2
{
    // Km2 = Expand(handshake_secret, ..); handshake_secret = Expand(prk, ..)
    assert(rfc_handshake_secret::<D>(prk1, th) == rfc_handshake_secret::<D>(prk2, th));
}
/// C07 (client side): if a client session accepts a response whose MAC a server session computed over ITS transcript, the two are one
/// matched conversation: the server session answered THIS client's request, context and identities agree, the response fields are the ones
/// that server session produced, and both sides derive the same session key.
pub proof fn thm_c07_client_matched<CS: CipherSuite>(st: ClientLogin<CS>, pw: Seq<u8>, resp: CredentialResponse<CS>, p: ClientLoginFinishParameters<CS>,
        prk_s: Seq<u8>, ctx: Seq<u8>, idu: Seq<u8>, ke1: Seq<u8>, ids: Seq<u8>, l2: Seq<u8>, ns: Seq<u8>, epk: Seq<u8>)
    requires
        cf_hash::<OprfHash<CS>>(), cf_hmac::<OprfHash<CS>>(), cf_expand::<OprfHash<CS>>(),
        cl_mac_ok::<CS>(st, pw, resp, p), ids_fit(p.identifiers),
        resp.ke2_message.mac@ == rfc_server_mac::<OprfHash<CS>>(prk_s, rfc_preamble(ctx, idu, ke1, ids, l2, ns, epk)),
        ctx.len() <= 65535, idu.len() <= 65535, ids.len() <= 65535,
        ke1.len() == noe::<CS>() + 32 + npk::<CS>(), l2.len() == noe::<CS>() + 32 + (32 + nh::<CS>() + npk::<CS>()), ns.len() == 32,
    ensures
        // the server session's request is this client's request
        <OprfGroup<CS> as Group>::ser_elem(st.credential_request.blinded_element.v()) + st.credential_request.ke1_message.client_nonce@
            + <CS::KeGroup as KeGroup>::ser_pk(st.credential_request.ke1_message.client_e_pk.0) == ke1,
        cl_preamble::<CS>(st, pw, resp, p) == rfc_preamble(ctx, idu, ke1, ids, l2, ns, epk),
        // keys agree within the session
        cl_prk::<CS>(st, pw, resp, p) == prk_s,
        rfc_session_key::<OprfHash<CS>>(cl_prk::<CS>(st, pw, resp, p), <OprfHash<CS> as Digest>::h(cl_preamble::<CS>(st, pw, resp, p)))
            == rfc_session_key::<OprfHash<CS>>(prk_s, <OprfHash<CS> as Digest>::h(rfc_preamble(ctx, idu, ke1, ids, l2, ns, epk))),
        //@vacuity
{
    lemma_lens::<CS>();
    thm_transcript_agreement::<CS>(st, pw, resp, p, prk_s, ctx, idu, ke1, ids, l2, ns, epk);
    lemma_km2_injective::<OprfHash<CS>>(cl_prk::<CS>(st, pw, resp, p), prk_s, <OprfHash<CS> as Digest>::h(cl_preamble::<CS>(st, pw, resp, p)));
}
/// C07 (server side): the tag a pending server state expects is HMAC(Km3, Hash(preamble_s || server_mac_s)).  If a finalization produced by a
/// client session (= rfc_client_mac over the client's transcript) is accepted, then the client's transcript and the server MAC it verified are
/// exactly the server session's: the finalization comes from the client run that accepted this very response.
pub proof fn thm_c07_server_matched<D: Hash>(prk_s: Seq<u8>, pre_s: Seq<u8>, prk_c: Seq<u8>, pre_c: Seq<u8>)
    requires
        cf_hash::<D>(), cf_hmac::<D>(),
        // accepted: the client's finalization equals the tag the server state expects
        rfc_client_mac::<D>(prk_c, pre_c) == D::hmac(rfc_km3::<D>(prk_s, D::h(pre_s)), D::h(pre_s + rfc_server_mac::<D>(prk_s, pre_s))),
    ensures
        pre_c == pre_s,
        rfc_server_mac::<D>(prk_c, pre_c) == rfc_server_mac::<D>(prk_s, pre_s),
        //@vacuity
{
    let mc = rfc_server_mac::<D>(prk_c, pre_c);
    let ms = rfc_server_mac::<D>(prk_s, pre_s);
    D::lemma_hmac_len(rfc_km2::<D>(prk_c, D::h(pre_c)), D::h(pre_c));
    D::lemma_hmac_len(rfc_km2::<D>(prk_s, D::h(pre_s)), D::h(pre_s));
    assert(D::h(pre_c + mc) == D::h(pre_s + ms));
    assert(pre_c + mc == pre_s + ms);
    // both MACs have length Nh: split from the right
    assert(pre_c =~= (pre_c + mc).subrange(0, (pre_c + mc).len() - D::OutputSize::n()));
    assert(pre_s =~= (pre_s + ms).subrange(0, (pre_s + ms).len() - D::OutputSize::n()));
    assert(mc =~= (pre_c + mc).subrange((pre_c + mc).len() - D::OutputSize::n(), (pre_c + mc).len() as int));
    assert(ms =~= (pre_s + ms).subrange((pre_s + ms).len() - D::OutputSize::n(), (pre_s + ms).len() as int));
}
/// C07 (distinct sessions): two sessions whose server nonces or server ephemeral keys differ have different transcripts, hence different
/// transcript hashes and different session keys (given collision-freedom of Hash and Expand).  Freshness of those values per session is
/// the `.tape` part of ServerLogin::start / generate_ke2 (disjoint tape segments).
pub proof fn thm_c07_distinct_sessions<D: Hash>(prk1: Seq<u8>, prk2: Seq<u8>,
        c1: Seq<u8>, u1: Seq<u8>, k1: Seq<u8>, s1: Seq<u8>, l1: Seq<u8>, n1: Seq<u8>, e1: Seq<u8>,
        c2: Seq<u8>, u2: Seq<u8>, k2: Seq<u8>, s2: Seq<u8>, l2: Seq<u8>, n2: Seq<u8>, e2: Seq<u8>)
    requires
        cf_hash::<D>(), cf_expand::<D>(), D::OutputSize::n() >= 32,
        c1.len() <= 65535, c2.len() <= 65535, u1.len() <= 65535, u2.len() <= 65535, s1.len() <= 65535, s2.len() <= 65535,
        k1.len() == k2.len(), l1.len() == l2.len(), n1.len() == n2.len(),
        n1 != n2 || e1 != e2 || k1 != k2,
    ensures
        rfc_session_key::<D>(prk1, D::h(rfc_preamble(c1, u1, k1, s1, l1, n1, e1))) != rfc_session_key::<D>(prk2, D::h(rfc_preamble(c2, u2, k2, s2, l2, n2, e2))),
        //@vacuity
{
    let p1 = rfc_preamble(c1, u1, k1, s1, l1, n1, e1);
    let p2 = rfc_preamble(c2, u2, k2, s2, l2, n2, e2);
    if p1 == p2 { lemma_preamble_injective(c1, u1, k1, s1, l1, n1, e1, c2, u2, k2, s2, l2, n2, e2); }
    let (t1, t2) = (D::h(p1), D::h(p2));
    assert(t1 != t2);
    D::lemma_h_len(p1); D::lemma_h_len(p2);
    let a1 = i2osp(D::OutputSize::n(), 2) + i2osp((s_opaque() + s_session_key()).len(), 1) + s_opaque() + s_session_key() + i2osp(t1.len(), 1);
    let a2 = i2osp(D::OutputSize::n(), 2) + i2osp((s_opaque() + s_session_key()).len(), 1) + s_opaque() + s_session_key() + i2osp(t2.len(), 1);
    assert(a1 == a2);
    if a1 + t1 == a2 + t2 { lemma_fixed_split(a1, t1, a2, t2); }
    assert(rfc_custom_label(D::OutputSize::n(), s_session_key(), t1) == a1 + t1);
    assert(rfc_custom_label(D::OutputSize::n(), s_session_key(), t2) == a2 + t2);
}

// ------------------------------------------------------------------------------------------------ C14 / C15 / C16
/// C14: what the client derives is independent of the blind — two registrations (or logins) of the same password against the same
/// per-credential OPRF key give the same randomized password (hence the same masking key), whatever the two blinds are
pub proof fn thm_c14_blind_independent<CS: CipherSuite>(pw: Seq<u8>, b1: <OprfGroup<CS> as Group>::Scalar, b2: <OprfGroup<CS> as Group>::Scalar,
        k: <OprfGroup<CS> as Group>::Scalar, ksf: Option<&CS::Ksf>)
    requires <OprfGroup<CS> as Group>::scalar_nonzero(b1), <OprfGroup<CS> as Group>::scalar_nonzero(b2), voprf::h2g::<CS::OprfCs>(pw) is Some,
    ensures ({
        let p = voprf::h2g::<CS::OprfCs>(pw)->0;
        let z1 = <OprfGroup<CS> as Group>::smul(<OprfGroup<CS> as Group>::smul(p, b1), k);
        let z2 = <OprfGroup<CS> as Group>::smul(<OprfGroup<CS> as Group>::smul(p, b2), k);
        rp_of::<CS>(pw, b1, z1, ksf) == rp_of::<CS>(pw, b2, z2, ksf)
            && (rp_of::<CS>(pw, b1, z1, ksf) is Ok ==> rfc_masking_key::<CS>(rp_of::<CS>(pw, b1, z1, ksf)->Ok_0) == rfc_masking_key::<CS>(rp_of::<CS>(pw, b2, z2, ksf)->Ok_0))
    }),
        //@vacuity
{
    lemma_oprf_output_blind_independent::<CS>(pw, b1, k);
    lemma_oprf_output_blind_independent::<CS>(pw, b2, k);
}
/// C14: the request itself depends on the blind: with the same password, different blinds give different blinded elements unless the
/// group action collapses them (a*P == b*P); stated as: equal requests imply equal unblinded points times blind
pub proof fn thm_c14_request_varies<G: Group>(p: G::Elem, b1: G::Scalar, b2: G::Scalar)
    requires G::scalar_nonzero(b1), G::smul(p, b1) == G::smul(p, b2)
    ensures G::smul(G::smul(p, b2), G::inv(b1)) == p
{
    G::lemma_smul_inv(p, b1);
}
/// C15: passing the suite's default KSF instance explicitly is the same as passing none
pub proof fn thm_c15_default_equiv<CS: CipherSuite>(pw: Seq<u8>, b: <OprfGroup<CS> as Group>::Scalar, z: <OprfGroup<CS> as Group>::Elem, k: &CS::Ksf)
    requires *k == ksf_default_spec::<CS::Ksf>()
    ensures rp_of::<CS>(pw, b, z, Some(k)) == rp_of::<CS>(pw, b, z, None),
        //@vacuity
{}
/// C15: different stretching results give different randomized passwords (given collision-freedom of Extract)
pub proof fn thm_c15_ksf_bound<CS: CipherSuite>(y: Seq<u8>, st1: Seq<u8>, st2: Seq<u8>)
    requires cf_extract::<OprfHash<CS>>(), st1 != st2
    ensures rfc_randomized_pwd::<CS>(y, st1) != rfc_randomized_pwd::<CS>(y, st2),
        //@vacuity
{
    if y + st1 == y + st2 { lemma_fixed_split(y, st1, y, st2); }
}
/// C16: a new registration (fresh envelope nonce) has a different export key, and so has a different randomized password
/// (given collision-freedom of Expand)
pub proof fn thm_c16_separated<CS: CipherSuite>(rp1: Seq<u8>, n1: Seq<u8>, rp2: Seq<u8>, n2: Seq<u8>)
    requires cf_expand::<OprfHash<CS>>(), n1.len() == n2.len(), rp1 != rp2 || n1 != n2
    ensures rfc_export_key::<CS>(rp1, n1) != rfc_export_key::<CS>(rp2, n2),
        //@vacuity
{
    lemma_lens::<CS>();
    if n1 + s_export_key() == n2 + s_export_key() { lemma_fixed_split(n1, s_export_key(), n2, s_export_key()); }
}
/// C16: the export key and the auth key / client-key seed / masking key are separated by their labels
pub proof fn thm_c16_label_separation<CS: CipherSuite>(rp: Seq<u8>, n: Seq<u8>)
    requires cf_expand::<OprfHash<CS>>(), n.len() == 32
    ensures rfc_export_key::<CS>(rp, n) != rfc_auth_key::<CS>(rp, n), rfc_export_key::<CS>(rp, n) != rfc_masking_key::<CS>(rp),
        //@vacuity
{
    lemma_lens::<CS>();
    assert((n + s_export_key()).len() != (n + s_auth_key()).len());
    assert((n + s_export_key()).len() != s_masking_key().len());
}

// ------------------------------------------------------------------------------------------------ C08
/// C08: the same login request served once without a record and once with an arbitrary record, same setup / credential identifier:
/// both succeed or fail together, the OPRF evaluation is the same function of (seed, credential identifier, request), every field has the
/// same length (same types), and the fake masking key / masking nonce / server nonce / ephemeral key are drawn from consecutive, disjoint
/// segments of the caller's tape (so they change from attempt to attempt exactly as real ones do).
pub fn thm_c08_fake_vs_real<CS: CipherSuite, R: RngCore + CryptoRng>(
    ra: &mut R, rb: &mut R, setup: &ServerSetup<CS>, rec: ServerRegistration<CS>, req: CredentialRequest<CS>, cred_id: &[u8], ids: Identifiers, ctx: Option<&[u8]>,
) -> (r: (Result<ServerLoginStartResult<CS>, ProtocolError>, Result<ServerLoginStartResult<CS>, ProtocolError>))
    requires
        kp_ok::<CS::KeGroup, CS::OprfCs>(old(ra).id(), old(ra).pos() + nh::<CS>() + 32),
        kp_ok::<CS::KeGroup, CS::OprfCs>(old(rb).id(), old(rb).pos() + 32),
    ensures
        r.0 is Ok <==> r.1 is Ok,
        r.0 is Ok ==> ({
            let (fake, genuine) = (r.0->Ok_0.message, r.1->Ok_0.message);
            let k = rfc_oprf_key::<CS>(setup.oprf_seed@, cred_id@)->Ok_0;
            // same evaluation: depends on seed, credential identifier and request only
            &&& fake.evaluation_element.v() == <OprfGroup<CS> as Group>::smul(req.blinded_element.v(), k)
            &&& genuine.evaluation_element.v() == fake.evaluation_element.v()
            // the fake record: masking key = first Nh tape bytes, then the same draws as for a real record
            &&& fake.masking_nonce@ == tape(old(ra).id(), old(ra).pos() + nh::<CS>(), 32)
            &&& genuine.masking_nonce@ == tape(old(rb).id(), old(rb).pos(), 32)
            &&& masked_ser(fake.masked_response) == xor(rfc_pad::<CS>(tape(old(ra).id(), old(ra).pos(), nh::<CS>()), fake.masking_nonce@),
                    <CS::KeGroup as KeGroup>::ser_pk(<CS::KeGroup as KeGroup>::pk_of(setup.keypair.sk.0)) + zeros(32 + nh::<CS>()))
            &&& fake.ke2_message.server_nonce@ == tape(old(ra).id(), old(ra).pos() + nh::<CS>() + 32 + nsk::<CS>(), 32)
            &&& final(ra).pos() == old(ra).pos() + nh::<CS>() + 32 + nsk::<CS>() + 32
            &&& final(rb).pos() == old(rb).pos() + 32 + nsk::<CS>() + 32
        }),
        //@vacuity
{
    let a = ServerLogin::<CS>::start(ra, setup, None, req.clone(), cred_id, ServerLoginStartParameters { context: ctx, identifiers: ids });
    let b = ServerLogin::<CS>::start(rb, setup, Some(rec), req, cred_id, ServerLoginStartParameters { context: ctx, identifiers: ids });
    (a, b)
}

// ------------------------------------------------------------------------------------------------ C13 (native encodings)
pub fn thm_c13_server_registration<CS: CipherSuite>(rec: &ServerRegistration<CS>) -> (r: Result<ServerRegistration<CS>, ProtocolError>)
    requires
        rec.0.envelope.mode is Internal,
        <CS::KeGroup as KeGroup>::de_pk(<CS::KeGroup as KeGroup>::ser_pk(rec.0.client_s_pk.0)) == Some(rec.0.client_s_pk.0),   // a valid stored key
    ensures
        r is Ok, r->Ok_0.0.client_s_pk == rec.0.client_s_pk, r->Ok_0.0.masking_key == rec.0.masking_key,
        r->Ok_0.0.envelope.nonce == rec.0.envelope.nonce, r->Ok_0.0.envelope.hmac == rec.0.envelope.hmac, r->Ok_0.0.envelope.mode == rec.0.envelope.mode,
        //@vacuity
{
    proof { broadcast use ga_axioms, seq_sub; lemma_lens::<CS>(); <CS::KeGroup as KeGroup>::lemma_ser_pk_len(rec.0.client_s_pk.0); }
    let bytes = rec.serialize();
    proof {
        let (k, h) = (npk::<CS>() as int, nh::<CS>() as int);
        let s = <CS::KeGroup as KeGroup>::ser_pk(rec.0.client_s_pk.0) + rec.0.masking_key@ + rec.0.envelope.nonce@ + rec.0.envelope.hmac@;
        assert(s.subrange(0, k) =~= <CS::KeGroup as KeGroup>::ser_pk(rec.0.client_s_pk.0));
        assert(s.subrange(k, k + h) =~= rec.0.masking_key@);
        assert(s.subrange(k + h, k + h + 32) =~= rec.0.envelope.nonce@);
        assert(s.subrange(k + h + 32, s.len() as int) =~= rec.0.envelope.hmac@);
    }
    ServerRegistration::<CS>::deserialize(&bytes)
}
pub fn thm_c13_client_registration<CS: CipherSuite>(st: &ClientRegistration<CS>) -> (r: Result<ClientRegistration<CS>, ProtocolError>)
    requires
        <OprfGroup<CS> as Group>::scalar_nonzero(st.oprf_client.blind_of()), st.blinded_element.v() != <OprfGroup<CS> as Group>::identity(),
    ensures r is Ok, r->Ok_0.oprf_client == st.oprf_client, r->Ok_0.blinded_element == st.blinded_element,
        //@vacuity
{
    proof {
        broadcast use ga_axioms, seq_sub, voprf::axiom_client_ext, voprf::axiom_blinded_ext; lemma_lens::<CS>();
        <OprfGroup<CS> as Group>::lemma_scalar_roundtrip(st.oprf_client.blind_of());
        <OprfGroup<CS> as Group>::lemma_elem_roundtrip(st.blinded_element.v());
        <OprfGroup<CS> as Group>::lemma_ser_scalar_len(st.oprf_client.blind_of());
        <OprfGroup<CS> as Group>::lemma_ser_elem_len(st.blinded_element.v());
    }
    let bytes = st.serialize();
    proof {
        let o = nok::<CS>() as int;
        let s = <OprfGroup<CS> as Group>::ser_scalar(st.oprf_client.blind_of()) + <OprfGroup<CS> as Group>::ser_elem(st.blinded_element.v());
        assert(s.subrange(0, o) =~= <OprfGroup<CS> as Group>::ser_scalar(st.oprf_client.blind_of()));
        assert(s.subrange(o, s.len() as int) =~= <OprfGroup<CS> as Group>::ser_elem(st.blinded_element.v()));
    }
    ClientRegistration::<CS>::deserialize(&bytes)
}
pub fn thm_c13_client_login<CS: CipherSuite>(st: &ClientLogin<CS>) -> (r: Result<ClientLogin<CS>, ProtocolError>)
    requires
        <OprfGroup<CS> as Group>::scalar_nonzero(st.oprf_client.blind_of()), st.credential_request.blinded_element.v() != <OprfGroup<CS> as Group>::identity(),
        !<CS::KeGroup as KeGroup>::sk_is_zero(st.ke1_state.client_e_sk.0),
        <CS::KeGroup as KeGroup>::de_pk(<CS::KeGroup as KeGroup>::ser_pk(st.credential_request.ke1_message.client_e_pk.0)) == Some(st.credential_request.ke1_message.client_e_pk.0),
    ensures
        r is Ok, r->Ok_0.oprf_client == st.oprf_client, r->Ok_0.credential_request.blinded_element == st.credential_request.blinded_element,
        r->Ok_0.credential_request.ke1_message.client_nonce == st.credential_request.ke1_message.client_nonce,
        r->Ok_0.credential_request.ke1_message.client_e_pk == st.credential_request.ke1_message.client_e_pk,
        r->Ok_0.ke1_state.client_e_sk == st.ke1_state.client_e_sk, r->Ok_0.ke1_state.client_nonce == st.ke1_state.client_nonce,
        //@vacuity
{
    proof {
        broadcast use ga_axioms, seq_sub, voprf::axiom_client_ext, voprf::axiom_blinded_ext; lemma_lens::<CS>();
        <OprfGroup<CS> as Group>::lemma_scalar_roundtrip(st.oprf_client.blind_of());
        <OprfGroup<CS> as Group>::lemma_elem_roundtrip(st.credential_request.blinded_element.v());
        <CS::KeGroup as KeGroup>::lemma_sk_roundtrip(st.ke1_state.client_e_sk.0);
        <OprfGroup<CS> as Group>::lemma_ser_scalar_len(st.oprf_client.blind_of());
        <OprfGroup<CS> as Group>::lemma_ser_elem_len(st.credential_request.blinded_element.v());
        <CS::KeGroup as KeGroup>::lemma_ser_pk_len(st.credential_request.ke1_message.client_e_pk.0);
        <CS::KeGroup as KeGroup>::lemma_ser_sk_len(st.ke1_state.client_e_sk.0);
    }
    let bytes = st.serialize();
    proof {
        let (o, e, k, sk) = (nok::<CS>() as int, noe::<CS>() as int, npk::<CS>() as int, nsk::<CS>() as int);
        let a = <OprfGroup<CS> as Group>::ser_scalar(st.oprf_client.blind_of());
        let b = <OprfGroup<CS> as Group>::ser_elem(st.credential_request.blinded_element.v());
        let c = st.credential_request.ke1_message.client_nonce@;
        let d = <CS::KeGroup as KeGroup>::ser_pk(st.credential_request.ke1_message.client_e_pk.0);
        let f = <CS::KeGroup as KeGroup>::ser_sk(st.ke1_state.client_e_sk.0);
        let g = st.ke1_state.client_nonce@;
        let s = a + (b + c + d) + (f + g);
        assert(s.subrange(0, o) =~= a);
        assert(s.subrange(o, o + e) =~= b);
        assert(s.subrange(o + e, o + e + 32) =~= c);
        assert(s.subrange(o + e + 32, o + e + 32 + k) =~= d);
        assert(s.subrange(o + e + 32 + k, o + e + 32 + k + sk) =~= f);
        assert(s.subrange(o + e + 32 + k + sk, s.len() as int) =~= g);
    }
    ClientLogin::<CS>::deserialize(&bytes)
}
pub fn thm_c13_server_setup<CS: CipherSuite>(setup: &ServerSetup<CS>) -> (r: Result<ServerSetup<CS>, ProtocolError>)
    requires
        !<CS::KeGroup as KeGroup>::sk_is_zero(setup.keypair.sk.0), !<CS::KeGroup as KeGroup>::sk_is_zero(setup.fake_keypair.sk.0),
        setup.keypair.pk.0 == <CS::KeGroup as KeGroup>::pk_of(setup.keypair.sk.0), setup.fake_keypair.pk.0 == <CS::KeGroup as KeGroup>::pk_of(setup.fake_keypair.sk.0),
    ensures
        r is Ok, r->Ok_0.oprf_seed == setup.oprf_seed, r->Ok_0.keypair.sk == setup.keypair.sk, r->Ok_0.keypair.pk == setup.keypair.pk,
        r->Ok_0.fake_keypair.sk == setup.fake_keypair.sk, r->Ok_0.fake_keypair.pk == setup.fake_keypair.pk,
        //@vacuity
{
    proof {
        broadcast use ga_axioms, seq_sub; lemma_lens::<CS>();
        <CS::KeGroup as KeGroup>::lemma_sk_roundtrip(setup.keypair.sk.0);
        <CS::KeGroup as KeGroup>::lemma_sk_roundtrip(setup.fake_keypair.sk.0);
        <CS::KeGroup as KeGroup>::lemma_ser_sk_len(setup.keypair.sk.0);
        <CS::KeGroup as KeGroup>::lemma_ser_sk_len(setup.fake_keypair.sk.0);
    }
    let bytes = setup.serialize();
    proof {
        let (h, k) = (nh::<CS>() as int, nsk::<CS>() as int);
        let s = setup.oprf_seed@ + <CS::KeGroup as KeGroup>::ser_sk(setup.keypair.sk.0) + <CS::KeGroup as KeGroup>::ser_sk(setup.fake_keypair.sk.0);
        assert(s.subrange(0, h) =~= setup.oprf_seed@);
        assert(s.subrange(h, h + k) =~= <CS::KeGroup as KeGroup>::ser_sk(setup.keypair.sk.0));
        assert(s.subrange(h + k, h + k + k) =~= <CS::KeGroup as KeGroup>::ser_sk(setup.fake_keypair.sk.0));
    }
    ServerSetup::<CS>::deserialize(&bytes)
}

// ------------------------------------------------------------------------------------------------ C17
/// C17: ServerLogin::start is a function of its arguments and the tape: two runs on generators with the same tape and position give
/// byte-identical responses and states (no hidden entropy source)
pub fn thm_c17_server_login_deterministic<CS: CipherSuite, R: RngCore + CryptoRng>(
    ra: &mut R, rb: &mut R, setup: &ServerSetup<CS>, rec: Option<ServerRegistration<CS>>, req: CredentialRequest<CS>, cred_id: &[u8], ids: Identifiers, ctx: Option<&[u8]>,
) -> (r: (Result<ServerLoginStartResult<CS>, ProtocolError>, Result<ServerLoginStartResult<CS>, ProtocolError>))
    requires
        old(ra).id() == old(rb).id(), old(ra).pos() == old(rb).pos(),
        kp_ok::<CS::KeGroup, CS::OprfCs>(old(ra).id(), old(ra).pos() + sls_off::<CS>(rec) + 32),
    ensures
        r.0 is Ok <==> r.1 is Ok,
        r.0 is Ok ==> ({
            let (a, b) = (r.0->Ok_0, r.1->Ok_0);
            &&& a.message.evaluation_element.v() == b.message.evaluation_element.v()
            &&& a.message.masking_nonce == b.message.masking_nonce
            &&& masked_ser(a.message.masked_response) == masked_ser(b.message.masked_response)
            &&& a.message.ke2_message.server_nonce == b.message.ke2_message.server_nonce
            &&& a.message.ke2_message.server_e_pk == b.message.ke2_message.server_e_pk
            &&& a.message.ke2_message.mac == b.message.ke2_message.mac
            &&& a.state.ke2_state.km3 == b.state.ke2_state.km3
            &&& a.state.ke2_state.hashed_transcript == b.state.ke2_state.hashed_transcript
            &&& a.state.ke2_state.session_key == b.state.ke2_state.session_key
            &&& final(ra).pos() == final(rb).pos()
        }),
        //@vacuity
{
    proof { broadcast use ga_axioms; }
    let a = ServerLogin::<CS>::start(ra, setup, rec.clone(), req.clone(), cred_id, ServerLoginStartParameters { context: ctx, identifiers: ids });
    let b = ServerLogin::<CS>::start(rb, setup, rec, req, cred_id, ServerLoginStartParameters { context: ctx, identifiers: ids });
    (a, b)
}
/// C17: the random values of one ServerLogin::start / ClientLogin::start call come from pairwise disjoint tape segments
pub proof fn thm_c17_disjoint_segments<CS: CipherSuite>(pos: nat, off: nat)
    ensures
        // masking key [pos, pos+off) | masking nonce [pos+off, +32) | ephemeral seed [.., +Nsk) | server nonce [.., +32)
        pos + off <= pos + off, pos + off + 32 <= pos + off + 32, pos + off + 32 + nsk::<CS>() <= pos + off + 32 + nsk::<CS>(),
{}

// ------------------------------------------------------------------------------------------------ C18
/// C18: with the default in-memory key (S = PrivateKey) the generic contract specialises to the direct computation: the external-key
/// interface is used for exactly one public-key and one Diffie-Hellman operation, whose results are KG::pk_of / KG::dh of the held scalar
pub fn thm_c18_transparent<CS: CipherSuite, R: RngCore + CryptoRng>(
    rng: &mut R, setup: &ServerSetup<CS, PrivateKey<CS::KeGroup>>, rec: Option<ServerRegistration<CS>>, req: CredentialRequest<CS>, cred_id: &[u8], ids: Identifiers, ctx: Option<&[u8]>,
) -> (r: Result<ServerLoginStartResult<CS>, ProtocolError>)
    requires kp_ok::<CS::KeGroup, CS::OprfCs>(old(rng).id(), old(rng).pos() + sls_off::<CS>(rec) + 32),
    ensures
        r is Ok <==> (cl_ctx_fit(ctx) && ids_fit(ids) && rfc_oprf_key::<CS>(setup.oprf_seed@, cred_id@) is Ok),
        r is Ok ==> ({
            let spk = <CS::KeGroup as KeGroup>::pk_of(setup.keypair.sk.0);
            masked_ser(r->Ok_0.message.masked_response) == xor(rfc_pad::<CS>(sls_mk::<CS>(rec, old(rng).id(), old(rng).pos()), r->Ok_0.message.masking_nonce@),
                <CS::KeGroup as KeGroup>::ser_pk(spk) + sls_env::<CS>(rec))
        }),
        //@vacuity
{
    ServerLogin::<CS>::start(rng, setup, rec, req, cred_id, ServerLoginStartParameters { context: ctx, identifiers: ids })
}

// ------------------------------------------------------------------------------------------------ C10: strict, canonical encodings
// For each of the eleven decoders: whatever byte string is accepted, the REAL encoder maps the decoded value back to exactly that
// byte string (hence one fixed length, no trailing bytes, no alternative encodings, and two different strings are never the same message).
// Canonical decoding of KE keys is the KeGroup trait contract (per-impl: Kani / replay); canonical decoding of OPRF elements must be
// enforced by opaque-ke itself because the dependency's element decoder is not canonical (prelude keeps its real, weak contract).
pub fn thm_c10_registration_request<CS: CipherSuite>(input: &[u8]) -> (r: Option<GenericArray<u8, RegistrationRequestLen<CS>>>)
    ensures r is Some ==> r->0@ == input@,
        //@vacuity
{
    proof { broadcast use ga_axioms, seq_sub; lemma_lens::<CS>(); }
    match RegistrationRequest::<CS>::deserialize(input) { Ok(m) => Some(m.serialize()), Err(_) => None }
}
/// the key-pair API: a private key given as bytes and a public key given as bytes are accepted only in the encoding that the real
/// encoders produce for the decoded key (one fixed length: no truncated / zero-padded / alternative spellings)
pub fn thm_c10_private_key_slice<KG: KeGroup>(input: &[u8]) -> (r: Option<GenericArray<u8, KG::SkLen>>)
    ensures r is Some ==> r->0@ == input@,
        //@vacuity
{
    proof { KG::lemma_de_sk_canonical(input@); }
    match KeyPair::<KG, PrivateKey<KG>>::from_private_key_slice(input) { Ok(kp) => Some(kp.private().serialize()), Err(_) => None }
}
pub fn thm_c10_public_key<KG: KeGroup>(input: &[u8]) -> (r: Option<GenericArray<u8, KG::PkLen>>)
    ensures r is Some ==> r->0@ == input@,
        //@vacuity
{
    proof { KG::lemma_de_pk_canonical(input@); }
    match PublicKey::<KG>::deserialize(input) { Ok(pk) => Some(pk.serialize()), Err(_) => None }
}
pub fn thm_c10_registration_response<CS: CipherSuite>(input: &[u8]) -> (r: Option<GenericArray<u8, RegistrationResponseLen<CS>>>)
    ensures r is Some ==> r->0@ == input@,
        //@vacuity
{
    proof {
        broadcast use ga_axioms, seq_sub; lemma_lens::<CS>();
        <CS::KeGroup as KeGroup>::lemma_de_pk_canonical(input@.subrange(noe::<CS>() as int, input@.len() as int));
    }
    match RegistrationResponse::<CS>::deserialize(input) {
        Ok(m) => { let o = m.serialize(); proof { assert(input@ =~= input@.subrange(0, noe::<CS>() as int) + input@.subrange(noe::<CS>() as int, input@.len() as int)); } Some(o) }
        Err(_) => None,
    }
}
pub fn thm_c10_registration_upload<CS: CipherSuite>(input: &[u8]) -> (r: Option<GenericArray<u8, RegistrationUploadLen<CS>>>)
    ensures r is Some ==> r->0@ == input@,
        //@vacuity
{
    proof {
        broadcast use ga_axioms, seq_sub; lemma_lens::<CS>();
        <CS::KeGroup as KeGroup>::lemma_de_pk_canonical(input@.subrange(0, npk::<CS>() as int));
    }
    match RegistrationUpload::<CS>::deserialize(input) {
        Ok(m) => { let o = m.serialize(); proof {
            let (k, h) = (npk::<CS>() as int, nh::<CS>() as int);
            assert(input@ =~= input@.subrange(0, k) + input@.subrange(k, k + h) + input@.subrange(k + h, k + h + 32) + input@.subrange(k + h + 32, input@.len() as int));
        } Some(o) }
        Err(_) => None,
    }
}
pub fn thm_c10_credential_request<CS: CipherSuite>(input: &[u8]) -> (r: Option<GenericArray<u8, CredentialRequestLen<CS>>>)
    ensures r is Some ==> r->0@ == input@,
        //@vacuity
{
    proof {
        broadcast use ga_axioms, seq_sub; lemma_lens::<CS>();
        <CS::KeGroup as KeGroup>::lemma_de_pk_canonical(input@.subrange(noe::<CS>() as int + 32, input@.len() as int));
    }
    match CredentialRequest::<CS>::deserialize(input) {
        Ok(m) => { let o = m.serialize(); proof {
            let e = noe::<CS>() as int;
            assert(input@ =~= input@.subrange(0, e) + input@.subrange(e, e + 32) + input@.subrange(e + 32, input@.len() as int));
        } Some(o) }
        Err(_) => None,
    }
}
pub fn thm_c10_credential_response<CS: CipherSuite>(input: &[u8]) -> (r: Option<GenericArray<u8, CredentialResponseLen<CS>>>)
    ensures r is Some ==> r->0@ == input@,
        //@vacuity
{
    proof {
        broadcast use ga_axioms, seq_sub; lemma_lens::<CS>();
        <CS::KeGroup as KeGroup>::lemma_de_pk_canonical(input@.subrange(cr_off_ke2::<CS>() + 32, cr_off_ke2::<CS>() + 32 + npk::<CS>() as int));
    }
    match CredentialResponse::<CS>::deserialize(input) {
        Ok(m) => { let o = m.serialize(); proof {
            let e = noe::<CS>() as int; let k2 = cr_off_ke2::<CS>(); let k = npk::<CS>() as int;
            assert(input@ =~= input@.subrange(0, e) + input@.subrange(e, e + 32) + input@.subrange(e + 32, k2) + input@.subrange(k2, k2 + 32)
                + input@.subrange(k2 + 32, k2 + 32 + k) + input@.subrange(k2 + 32 + k, input@.len() as int));
        } Some(o) }
        Err(_) => None,
    }
}
pub fn thm_c10_credential_finalization<CS: CipherSuite>(input: &[u8]) -> (r: Option<GenericArray<u8, CredentialFinalizationLen<CS>>>)
    ensures r is Some ==> r->0@ == input@,
        //@vacuity
{
    match CredentialFinalization::<CS>::deserialize(input) { Ok(m) => Some(m.serialize()), Err(_) => None }
}
pub fn thm_c10_server_registration<CS: CipherSuite>(input: &[u8]) -> (r: Option<GenericArray<u8, ServerRegistrationLen<CS>>>)
    ensures r is Some ==> r->0@ == input@,
        //@vacuity
{
    proof {
        broadcast use ga_axioms, seq_sub; lemma_lens::<CS>();
        <CS::KeGroup as KeGroup>::lemma_de_pk_canonical(input@.subrange(0, npk::<CS>() as int));
    }
    match ServerRegistration::<CS>::deserialize(input) {
        Ok(m) => { let o = m.serialize(); proof {
            let (k, h) = (npk::<CS>() as int, nh::<CS>() as int);
            assert(input@ =~= input@.subrange(0, k) + input@.subrange(k, k + h) + input@.subrange(k + h, k + h + 32) + input@.subrange(k + h + 32, input@.len() as int));
        } Some(o) }
        Err(_) => None,
    }
}
pub fn thm_c10_server_login<CS: CipherSuite>(input: &[u8]) -> (r: Option<GenericArray<u8, Ke2StateLen<CS>>>)
    ensures r is Some ==> r->0@ == input@,
        //@vacuity
{
    proof { broadcast use ga_axioms, seq_sub; lemma_lens::<CS>(); }
    match ServerLogin::<CS>::deserialize(input) {
        Ok(m) => { let o = m.serialize(); proof {
            let h = nh::<CS>() as int;
            assert(input@ =~= input@.subrange(0, h) + input@.subrange(h, 2 * h) + input@.subrange(2 * h, 3 * h));
        } Some(o) }
        Err(_) => None,
    }
}
pub fn thm_c10_client_registration<CS: CipherSuite>(input: &[u8]) -> (r: Option<GenericArray<u8, ClientRegistrationLen<CS>>>)
    ensures r is Some ==> r->0@ == input@,
        //@vacuity
{
    proof {
        broadcast use ga_axioms, seq_sub; lemma_lens::<CS>();
        <OprfGroup<CS> as Group>::lemma_de_scalar_canonical(input@.subrange(0, nok::<CS>() as int));
    }
    match ClientRegistration::<CS>::deserialize(input) {
        Ok(m) => { let o = m.serialize(); proof {
            let k = nok::<CS>() as int;
            assert(input@ =~= input@.subrange(0, k) + input@.subrange(k, input@.len() as int));
        } Some(o) }
        Err(_) => None,
    }
}
pub fn thm_c10_client_login<CS: CipherSuite>(input: &[u8]) -> (r: Option<GenericArray<u8, ClientLoginLen<CS>>>)
    ensures r is Some ==> r->0@ == input@,
        //@vacuity
{
    proof {
        broadcast use ga_axioms, seq_sub; lemma_lens::<CS>();
        let (o, e, k, s) = (nok::<CS>() as int, noe::<CS>() as int, npk::<CS>() as int, nsk::<CS>() as int);
        <OprfGroup<CS> as Group>::lemma_de_scalar_canonical(input@.subrange(0, o));
        <CS::KeGroup as KeGroup>::lemma_de_pk_canonical(input@.subrange(o + e + 32, o + e + 32 + k));
        <CS::KeGroup as KeGroup>::lemma_de_sk_canonical(input@.subrange(o + e + 32 + k, o + e + 32 + k + s));
    }
    match ClientLogin::<CS>::deserialize(input) {
        Ok(m) => { let out = m.serialize(); proof {
            let (o, e, k, s) = (nok::<CS>() as int, noe::<CS>() as int, npk::<CS>() as int, nsk::<CS>() as int);
            assert(input@ =~= input@.subrange(0, o) + (input@.subrange(o, o + e) + input@.subrange(o + e, o + e + 32) + input@.subrange(o + e + 32, o + e + 32 + k))
                + (input@.subrange(o + e + 32 + k, o + e + 32 + k + s) + input@.subrange(o + e + 32 + k + s, input@.len() as int)));
        } Some(out) }
        Err(_) => None,
    }
}
/// server setup, default in-memory key
pub fn thm_c10_server_setup<CS: CipherSuite>(input: &[u8]) -> (r: Option<GenericArray<u8, ServerSetupLen<CS, PrivateKey<CS::KeGroup>>>>)
    ensures r is Some ==> r->0@ == input@,
        //@vacuity
{
    proof {
        broadcast use ga_axioms, seq_sub; lemma_lens::<CS>();
        let (h, k) = (nh::<CS>() as int, nsk::<CS>() as int);
        <CS::KeGroup as KeGroup>::lemma_de_sk_canonical(input@.subrange(h, h + k));
        <CS::KeGroup as KeGroup>::lemma_de_sk_canonical(input@.subrange(h + k, h + k + k));
    }
    match ServerSetup::<CS>::deserialize(input) {
        Ok(m) => { let o = m.serialize(); proof {
            let (h, k) = (nh::<CS>() as int, nsk::<CS>() as int);
            assert(input@ =~= input@.subrange(0, h) + input@.subrange(h, h + k) + input@.subrange(h + k, h + k + k));
        } Some(o) }
        Err(_) => None,
    }
}
/// C13 / C18: a server setup whose static key lives behind the external-key interface survives a native save / reload, whatever the
/// serialized length of the key handle (the external key's own encode/decode pair is assumed to round-trip)
pub fn thm_c13_server_setup_external<CS: CipherSuite, S: SecretKey<CS::KeGroup>>(setup: &ServerSetup<CS, S>) -> (r: Result<ServerSetup<CS, S>, ProtocolError<S::Error>>)
    requires
        S::de_res(setup.keypair.sk.ser()) == Ok::<S, InternalError<S::Error>>(setup.keypair.sk),
        setup.keypair.sk.pk_res() == Ok::<PublicKey<CS::KeGroup>, InternalError<S::Error>>(setup.keypair.pk),
        !<CS::KeGroup as KeGroup>::sk_is_zero(setup.fake_keypair.sk.0),
        setup.fake_keypair.pk.0 == <CS::KeGroup as KeGroup>::pk_of(setup.fake_keypair.sk.0),
        setup.keypair.sk.ser().len() == S::Len::n(),
    ensures
        r is Ok, r->Ok_0.oprf_seed == setup.oprf_seed, r->Ok_0.keypair.sk == setup.keypair.sk, r->Ok_0.keypair.pk == setup.keypair.pk,
        r->Ok_0.fake_keypair.sk == setup.fake_keypair.sk, r->Ok_0.fake_keypair.pk == setup.fake_keypair.pk,
        //@vacuity
{
    proof {
        broadcast use ga_axioms, seq_sub; lemma_lens::<CS>(); S::lemma_sk_len();
        <CS::KeGroup as KeGroup>::lemma_sk_roundtrip(setup.fake_keypair.sk.0);
        <CS::KeGroup as KeGroup>::lemma_ser_sk_len(setup.fake_keypair.sk.0);
    }
    let bytes = setup.serialize();
    proof {
        let (h, l, k) = (nh::<CS>() as int, S::Len::n() as int, nsk::<CS>() as int);
        let s = setup.oprf_seed@ + setup.keypair.sk.ser() + <CS::KeGroup as KeGroup>::ser_sk(setup.fake_keypair.sk.0);
        assert(s.subrange(0, h) =~= setup.oprf_seed@);
        assert(s.subrange(h, h + l) =~= setup.keypair.sk.ser());
        assert(s.subrange(h + l, h + l + k) =~= <CS::KeGroup as KeGroup>::ser_sk(setup.fake_keypair.sk.0));
    }
    ServerSetup::<CS, S>::deserialize(&bytes)
}
