// =====================================================================================================
// THEOREMS — each listed property as a Verus program / lemma over the CONTRACTS of the extracted API.
// Exec harnesses call the real (extracted) functions; Verus checks them against callee contracts only.
// `//@vacuity` marks the place where the vacuity twin inserts `false` (that twin must FAIL).
// Hypotheses (idealisations, DESIGN.md 2.7) are explicit `requires`, never axioms.
// =====================================================================================================

// ------------------------------------------------------------------------------------------------ C03
/// For every pending server state (real or fake record — the state is three byte strings either way) and every byte
/// string `m`: decoding + ServerLogin::finish returns a key  <==>  m is exactly HMAC(km3, hashed_transcript);
/// the key is the state's session key; every other outcome is the invalid-login error (or a decode error for a wrong length).
pub fn thm_c03_exact<CS: CipherSuite>(st: ServerLogin<CS>, m: &[u8]) -> (r: Result<ServerLoginFinishResult<CS>, ProtocolError>)
    ensures
        r is Ok <==> m@ == <OprfHash<CS> as Digest>::hmac(st.ke2_state.km3@, st.ke2_state.hashed_transcript@),
        r is Ok ==> r->Ok_0.session_key == st.ke2_state.session_key,
        r is Err && m@.len() == nh::<CS>() ==> r->Err_0 == ProtocolError::<Infallible>::InvalidLoginError,
        //@vacuity
{
    proof {
        <OprfHash<CS> as Digest>::lemma_hmac_len(st.ke2_state.km3@, st.ke2_state.hashed_transcript@);
    }
    let msg = match CredentialFinalization::<CS>::deserialize(m) { Ok(v) => v, Err(e) => return Err(e) };
    st.finish(msg)
}
/// the tag a pending state produced by ServerLogin::start expects is the RFC client MAC of that session's transcript
pub proof fn thm_c03_expected_tag<D: Hash>(prk: Seq<u8>, pre: Seq<u8>, km3: Seq<u8>, ht: Seq<u8>)
    requires km3 == rfc_km3::<D>(prk, D::h(pre)), ht == D::h(pre + rfc_server_mac::<D>(prk, pre)),
    ensures D::hmac(km3, ht) == rfc_client_mac::<D>(prk, pre),
{}
/// a pending state reloaded from its native encoding expects the same tag and releases the same key
pub fn thm_c03_reload<CS: CipherSuite>(st: ServerLogin<CS>) -> (r: Result<ServerLogin<CS>, ProtocolError>)
    ensures
        r is Ok,
        r->Ok_0.ke2_state.km3 == st.ke2_state.km3,
        r->Ok_0.ke2_state.hashed_transcript == st.ke2_state.hashed_transcript,
        r->Ok_0.ke2_state.session_key == st.ke2_state.session_key,
        //@vacuity
{
    proof {
        broadcast use ga_axioms, seq_sub;
        lemma_lens::<CS>();
    }
    let bytes = st.serialize();
    proof {
        let h = nh::<CS>() as int;
        let s = st.ke2_state.km3@ + st.ke2_state.hashed_transcript@ + st.ke2_state.session_key@;
        assert(s.subrange(0, h) =~= st.ke2_state.km3@);
        assert(s.subrange(h, 2 * h) =~= st.ke2_state.hashed_transcript@);
        assert(s.subrange(2 * h, 3 * h) =~= st.ke2_state.session_key@);
    }
    ServerLogin::<CS>::deserialize(&bytes)
}
