// =====================================================================================================
// THEOREMS — each listed property as a Verus program / lemma over the CONTRACTS of the extracted API.
// Exec harnesses call the real (extracted) functions; Verus checks them against callee contracts only.
// `//@vacuity` marks the place where the vacuity twin inserts `false` (that twin must FAIL).
// Hypotheses (idealisations, DESIGN.md 2.7) are explicit `requires`, never axioms.
// =====================================================================================================

// ------------------------------------------------------------------------------------------------ C03
/// For every pending server state (real or fake record — the state is three byte strings either way) and every byte
/// string `m`: decoding + ServerLogin::finish returns a key  <==>  m is exactly HMAC(km3, hashed_transcript);
/// the key is the state's session key; every other outcome is the invalid-login error (or a decode error for a wrong length).
pub fn thm_c03_exact<CS: CipherSuite>(st: ServerLogin<CS>, m: &[u8]) -> (r: Result<ServerLoginFinishResult<CS>, ProtocolError>)
    ensures
        r is Ok <==> m@ == <OprfHash<CS> as Digest>::hmac(st.ke2_state.km3@, st.ke2_state.hashed_transcript@),
        r is Ok ==> r->Ok_0.session_key == st.ke2_state.session_key,
        r is Err && m@.len() == nh::<CS>() ==> r->Err_0 == ProtocolError::<Infallible>::InvalidLoginError,
        //@vacuity
{
    proof {
        <OprfHash<CS> as Digest>::lemma_hmac_len(st.ke2_state.km3@, st.ke2_state.hashed_transcript@);
    }
    let msg = match CredentialFinalization::<CS>::deserialize(m) { Ok(v) => v, Err(e) => return Err(e) };
    st.finish(msg)
}
/// the tag a pending state produced by ServerLogin::start expects is the RFC client MAC of that session's transcript
pub proof fn thm_c03_expected_tag<D: Hash>(prk: Seq<u8>, pre: Seq<u8>, km3: Seq<u8>, ht: Seq<u8>)
    requires km3 == rfc_km3::<D>(prk, D::h(pre)), ht == D::h(pre + rfc_server_mac::<D>(prk, pre)),
    ensures D::hmac(km3, ht) == rfc_client_mac::<D>(prk, pre),
{}
/// a pending state reloaded from its native encoding expects the same tag and releases the same key
pub fn thm_c03_reload<CS: CipherSuite>(st: ServerLogin<CS>) -> (r: Result<ServerLogin<CS>, ProtocolError>)
    ensures
        r is Ok,
        r->Ok_0.ke2_state.km3 == st.ke2_state.km3,
        r->Ok_0.ke2_state.hashed_transcript == st.ke2_state.hashed_transcript,
        r->Ok_0.ke2_state.session_key == st.ke2_state.session_key,
        //@vacuity
{
    proof {
        broadcast use ga_axioms, seq_sub;
        lemma_lens::<CS>();
    }
    let bytes = st.serialize();
    proof {
        let h = nh::<CS>() as int;
        let s = st.ke2_state.km3@ + st.ke2_state.hashed_transcript@ + st.ke2_state.session_key@;
        assert(s.subrange(0, h) =~= st.ke2_state.km3@);
        assert(s.subrange(h, 2 * h) =~= st.ke2_state.hashed_transcript@);
        assert(s.subrange(2 * h, 3 * h) =~= st.ke2_state.session_key@);
    }
    ServerLogin::<CS>::deserialize(&bytes)
}

// ------------------------------------------------------------------------------------------------ shared lemmas
/// OPRF unblinding (RFC 9497): ((P * b) * k) * b^-1 == P * k, from the two assumed group laws
pub proof fn lemma_oprf_unblind<G: Group>(p: G::Elem, b: G::Scalar, k: G::Scalar)
    requires G::scalar_nonzero(b)
    ensures G::smul(G::smul(G::smul(p, b), k), G::inv(b)) == G::smul(p, k)
{
    G::lemma_smul_comm(p, b, k);
    G::lemma_smul_inv(G::smul(p, k), b);
}
/// the OPRF output does not depend on the blind
pub proof fn lemma_oprf_output_blind_independent<CS: CipherSuite>(pw: Seq<u8>, b: <OprfGroup<CS> as Group>::Scalar, k: <OprfGroup<CS> as Group>::Scalar)
    requires <OprfGroup<CS> as Group>::scalar_nonzero(b), voprf::h2g::<CS::OprfCs>(pw) is Some
    ensures ({
        let p = voprf::h2g::<CS::OprfCs>(pw)->0;
        rfc_oprf_output::<CS>(pw, b, <OprfGroup<CS> as Group>::smul(<OprfGroup<CS> as Group>::smul(p, b), k))
            == <OprfHash<CS> as Digest>::h(voprf::finalize_input::<CS::OprfCs>(pw, <OprfGroup<CS> as Group>::smul(p, k)))
    })
{
    lemma_oprf_unblind::<OprfGroup<CS>>(voprf::h2g::<CS::OprfCs>(pw)->0, b, k);
}
/// unmasking inverts masking (XOR pad involution) and the three fields come back
pub proof fn lemma_unmask<CS: CipherSuite>(mk: Seq<u8>, mnonce: Seq<u8>, m: MaskedResponse<CS>, pk: Seq<u8>, nonce: Seq<u8>, tag: Seq<u8>)
    requires
        pk.len() == npk::<CS>(), nonce.len() == 32, tag.len() == nh::<CS>(),
        masked_ser(m) == xor(rfc_pad::<CS>(mk, mnonce), pk + nonce + tag),
    ensures
        unmasked_pk::<CS>(mk, mnonce, m) == pk,
        unmasked_nonce::<CS>(mk, mnonce, m) == nonce,
        unmasked_tag::<CS>(mk, mnonce, m) == tag,
{
    <OprfHash<CS> as Digest>::lemma_expand_len(mk, mnonce + s_credential_response_pad(), npk::<CS>() + nn() + nh::<CS>());
    let pad = rfc_pad::<CS>(mk, mnonce);
    let x = pk + nonce + tag;
    lemma_xor_involution(pad, x);
    assert(unmasked::<CS>(mk, mnonce, m) == x);
    assert(x.subrange(0, npk::<CS>() as int) =~= pk);
    assert(x.subrange(npk::<CS>() as int, npk::<CS>() as int + 32) =~= nonce);
    assert(x.subrange(npk::<CS>() as int + 32, npk::<CS>() as int + 32 + nh::<CS>() as int) =~= tag);
}

// ------------------------------------------------------------------------------------------------ C01
/// what an honest run needs besides the lengths (negligible-probability exclusions, listed as assumptions):
/// the OPRF accepts the password, the per-credential OPRF key exists and is not 1 (otherwise the reflected-value check fires),
/// key derivations do not exhaust their 256 counters, the key-stretching function succeeds
pub open spec fn c01_pre<CS: CipherSuite, R: RngCore>(
    rs: R, r1: R, r2: R, r3: R, r4: R, pw: Seq<u8>, cred_id: Seq<u8>, ids: Identifiers, ctx: Option<&[u8]>, ksf: Option<&CS::Ksf>) -> bool
{
    let seed = tape(rs.id(), rs.pos() + nsk::<CS>(), nh::<CS>());
    let p = voprf::h2g::<CS::OprfCs>(pw);
    let k = rfc_oprf_key::<CS>(seed, cred_id);
    let y = <OprfHash<CS> as Digest>::h(voprf::finalize_input::<CS::OprfCs>(pw, <OprfGroup<CS> as Group>::smul(p->0, k->Ok_0)));
    let st = ksf_eff::<CS>(ksf).ksf_spec(y);
    let rp = rfc_randomized_pwd::<CS>(y, st->Ok_0);
    &&& pw.len() <= 65535 && ids_fit(ids) && cl_ctx_fit(ctx)
    &&& kp_ok::<CS::KeGroup, CS::OprfCs>(rs.id(), rs.pos()) && kp_ok::<CS::KeGroup, CS::OprfCs>(rs.id(), rs.pos() + nsk::<CS>() + nh::<CS>())
    &&& p is Some && k is Ok && st is Ok
    &&& forall|e: <OprfGroup<CS> as Group>::Elem| <OprfGroup<CS> as Group>::smul(e, k->Ok_0) != e
    &&& rfc_client_sk::<CS>(rp, tape(r2.id(), r2.pos(), 32)) is Ok
    &&& kp_ok::<CS::KeGroup, CS::OprfCs>(r3.id(), r3.pos() + voprf::scalar_draw_len::<CS::OprfCs>(r3.id(), r3.pos()))
    &&& kp_ok::<CS::KeGroup, CS::OprfCs>(r4.id(), r4.pos() + 32)
}

pub struct C01Out<CS: CipherSuite> {
    pub reg_export_key: Output<OprfHash<CS>>,
    pub reg_server_pk: PublicKey<CS::KeGroup>,
    pub setup_pk: PublicKey<CS::KeGroup>,
    pub login: ClientLoginFinishResult<CS>,
    pub server: ServerLoginFinishResult<CS>,
}

/// C01: an honest registration followed by an honest login, for every password / identifiers / context / KSF / tapes and every
/// suite (lengths and primitives are abstract): every step succeeds, both sides hold the same session key, and the client gets
/// back the export key and the server public key of its registration.
pub fn thm_c01_honest_run<CS: CipherSuite, R: RngCore + CryptoRng>(
    rs: &mut R, r1: &mut R, r2: &mut R, r3: &mut R, r4: &mut R,
    pw: &[u8], cred_id: &[u8], ids: Identifiers, ctx: Option<&[u8]>, ksf: Option<&CS::Ksf>,
) -> (r: Result<C01Out<CS>, ProtocolError>)
    requires
        c01_pre::<CS, R>(*old(rs), *old(r1), *old(r2), *old(r3), *old(r4), pw@, cred_id@, ids, ctx, ksf),
    ensures
        r is Ok,
        r->Ok_0.login.session_key == r->Ok_0.server.session_key,
        r->Ok_0.login.export_key == r->Ok_0.reg_export_key,
        r->Ok_0.login.server_s_pk == r->Ok_0.reg_server_pk,
        r->Ok_0.reg_server_pk == r->Ok_0.setup_pk,
        //@vacuity
{
    proof {
        broadcast use ga_axioms, seq_norm;
        lemma_lens::<CS>();
    }
    let ghost (s_id, s_pos) = (rs.id(), rs.pos());
    let ghost (r1_id, r1_pos) = (r1.id(), r1.pos());
    let ghost (r2_id, r2_pos) = (r2.id(), r2.pos());
    let ghost (r3_id, r3_pos) = (r3.id(), r3.pos());
    let ghost (r4_id, r4_pos) = (r4.id(), r4.pos());
    let ghost p = voprf::h2g::<CS::OprfCs>(pw@)->0;
    let ghost seed = tape(s_id, s_pos + nsk::<CS>(), nh::<CS>());
    let ghost k = rfc_oprf_key::<CS>(seed, cred_id@)->Ok_0;
    let ghost y = <OprfHash<CS> as Digest>::h(voprf::finalize_input::<CS::OprfCs>(pw@, <OprfGroup<CS> as Group>::smul(p, k)));
    let ghost rp = rfc_randomized_pwd::<CS>(y, ksf_eff::<CS>(ksf).ksf_spec(y)->Ok_0);

    // ---- setup and registration
    let setup = ServerSetup::<CS>::new(rs);
    let c_start = match ClientRegistration::<CS>::start(r1, pw) { Ok(v) => v, Err(e) => return Err(e) };
    let ghost b1 = c_start.state.oprf_client.blind_of();
    proof { voprf::axiom_scalar_of_tape_nonzero::<CS::OprfCs>(r1_id, r1_pos); }
    let s_start = match ServerRegistration::<CS>::start(&setup, c_start.message, cred_id) { Ok(v) => v, Err(e) => return Err(e) };
    let reg_server_pk = s_start.message.server_s_pk.clone();
    proof {
        lemma_oprf_output_blind_independent::<CS>(pw@, b1, k);
        assert(rp_of::<CS>(pw@, b1, s_start.message.evaluation_element.v(), ksf) == Ok::<Seq<u8>, ()>(rp));
    }
    let c_fin = match c_start.state.finish(r2, pw, s_start.message, ClientRegistrationFinishParameters::new(ids, ksf)) { Ok(v) => v, Err(e) => return Err(e) };
    let reg_export_key = c_fin.export_key;
    let record = ServerRegistration::<CS>::finish(c_fin.message);
    let ghost env_nonce = tape(r2_id, r2_pos, 32);
    let ghost csk = rfc_client_sk::<CS>(rp, env_nonce)->Ok_0;
    let ghost spk = setup.keypair.pk;
    let ghost spk_bytes = <CS::KeGroup as KeGroup>::ser_pk(spk.0);

    // ---- login
    let l_start = match ClientLogin::<CS>::start(r3, pw) { Ok(v) => v, Err(e) => return Err(e) };
    let ghost b2 = l_start.state.oprf_client.blind_of();
    proof { voprf::axiom_scalar_of_tape_nonzero::<CS::OprfCs>(r3_id, r3_pos); }
    let ghost cl_state = l_start.state;
    let sl = match ServerLogin::<CS>::start(r4, &setup, Some(record), l_start.message, cred_id,
        ServerLoginStartParameters { context: ctx, identifiers: ids }) { Ok(v) => v, Err(e) => return Err(e) };
    let ghost resp = sl.message;
    let params = ClientLoginFinishParameters::<CS>::new(ctx, ids, ksf);
    proof {
        // (1) same randomized password
        lemma_oprf_output_blind_independent::<CS>(pw@, b2, k);
        assert(rp_of::<CS>(pw@, b2, resp.evaluation_element.v(), ksf) == Ok::<Seq<u8>, ()>(rp));
        // (2) unmasking returns the server key and the registered envelope
        <CS::KeGroup as KeGroup>::lemma_ser_pk_len(spk.0);
        <OprfHash<CS> as Digest>::lemma_hmac_len(rfc_auth_key::<CS>(rp, env_nonce), env_nonce + rfc_cleartext_credentials(spk_bytes, eff_id(ids.server, spk_bytes),
            eff_id(ids.client, <CS::KeGroup as KeGroup>::ser_pk(<CS::KeGroup as KeGroup>::pk_of(csk)))));
        let tag = rfc_envelope_tag::<CS>(rp, env_nonce, spk_bytes, ids);
        let mk = rfc_masking_key::<CS>(rp);
        lemma_unmask::<CS>(mk, resp.masking_nonce@, resp.masked_response, spk_bytes, env_nonce, tag);
        <CS::KeGroup as KeGroup>::lemma_derive_nonzero::<CS::OprfCs>(tape(s_id, s_pos, nsk::<CS>()));
        <CS::KeGroup as KeGroup>::lemma_pk_roundtrip(setup.keypair.sk.0);
        assert(cl_server_pk::<CS>(cl_state, pw@, resp, params) == Some(spk.0));
        assert(cl_env_nonce::<CS>(cl_state, pw@, resp, params) == env_nonce);
        assert(cl_client_sk::<CS>(cl_state, pw@, resp, params) == csk);
        // (3) the three Diffie-Hellman values agree
        let cesk = cl_state.ke1_state.client_e_sk.0;
        let sesk = kp_sk::<CS::KeGroup, CS::OprfCs>(r4_id, r4_pos + 32);
        <CS::KeGroup as KeGroup>::lemma_dh_sym(sesk, cesk);
        <CS::KeGroup as KeGroup>::lemma_dh_sym(setup.keypair.sk.0, cesk);
        <CS::KeGroup as KeGroup>::lemma_dh_sym(sesk, csk);
        // (4) the reflected-value check does not fire
        assert(cl_state.credential_request.blinded_element.v() != resp.evaluation_element.v());
        assert(cl_accepts::<CS>(cl_state, pw@, resp, params));
    }
    let login = match l_start.state.finish(pw, sl.message, params) { Ok(v) => v, Err(e) => return Err(e) };
    let server = match sl.state.finish(login.message.clone()) { Ok(v) => v, Err(e) => return Err(e) };
    Ok(C01Out { reg_export_key, reg_server_pk, setup_pk: setup.keypair.public().clone(), login, server })
}
