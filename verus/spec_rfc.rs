// RFC 9807 (OPAQUE-3DH) / RFC 9497 (OPRF) formulas as spec functions — the ORACLE.
// Transcribed from the RFC text, independently of the code under verification.
