// =====================================================================================================
// ORACLE — RFC 9807 (OPAQUE-3DH) and RFC 9497 (OPRF, mode 0) formulas as spec functions.
// Transcribed from the RFC text, independently of the code under verification (TRUSTED transcription;
// an executable twin in /verif/replay is checked against the RFC 9807 vectors shipped with the repo).
// Primitives (Hash, MAC = HMAC, Extract/Expand = HKDF, the OPRF group, the KE group) are the abstract
// spec functions of the prelude traits.
// =====================================================================================================

// ---- label constants (RFC 9807 sections 4, 5, 6; RFC 9497 section 3) -------------------------------
pub open spec fn s_opaquev1() -> Seq<u8> { seq![0x4fu8, 0x50, 0x41, 0x51, 0x55, 0x45, 0x76, 0x31, 0x2d] }                      // "OPAQUEv1-"
pub open spec fn s_opaque() -> Seq<u8> { seq![0x4fu8, 0x50, 0x41, 0x51, 0x55, 0x45, 0x2d] }                                    // "OPAQUE-"
pub open spec fn s_handshake_secret() -> Seq<u8> { seq![0x48u8, 0x61, 0x6e, 0x64, 0x73, 0x68, 0x61, 0x6b, 0x65, 0x53, 0x65, 0x63, 0x72, 0x65, 0x74] } // "HandshakeSecret"
pub open spec fn s_session_key() -> Seq<u8> { seq![0x53u8, 0x65, 0x73, 0x73, 0x69, 0x6f, 0x6e, 0x4b, 0x65, 0x79] }             // "SessionKey"
pub open spec fn s_server_mac() -> Seq<u8> { seq![0x53u8, 0x65, 0x72, 0x76, 0x65, 0x72, 0x4d, 0x41, 0x43] }                    // "ServerMAC"
pub open spec fn s_client_mac() -> Seq<u8> { seq![0x43u8, 0x6c, 0x69, 0x65, 0x6e, 0x74, 0x4d, 0x41, 0x43] }                    // "ClientMAC"
pub open spec fn s_auth_key() -> Seq<u8> { seq![0x41u8, 0x75, 0x74, 0x68, 0x4b, 0x65, 0x79] }                                  // "AuthKey"
pub open spec fn s_export_key() -> Seq<u8> { seq![0x45u8, 0x78, 0x70, 0x6f, 0x72, 0x74, 0x4b, 0x65, 0x79] }                    // "ExportKey"
pub open spec fn s_private_key() -> Seq<u8> { seq![0x50u8, 0x72, 0x69, 0x76, 0x61, 0x74, 0x65, 0x4b, 0x65, 0x79] }             // "PrivateKey"
pub open spec fn s_masking_key() -> Seq<u8> { seq![0x4du8, 0x61, 0x73, 0x6b, 0x69, 0x6e, 0x67, 0x4b, 0x65, 0x79] }             // "MaskingKey"
pub open spec fn s_oprf_key() -> Seq<u8> { seq![0x4fu8, 0x70, 0x72, 0x66, 0x4b, 0x65, 0x79] }                                  // "OprfKey"
pub open spec fn s_credential_response_pad() -> Seq<u8> {                                                                      // "CredentialResponsePad"
    seq![0x43u8, 0x72, 0x65, 0x64, 0x65, 0x6e, 0x74, 0x69, 0x61, 0x6c, 0x52, 0x65, 0x73, 0x70, 0x6f, 0x6e, 0x73, 0x65, 0x50, 0x61, 0x64]
}
pub open spec fn s_opaque_derive_key_pair() -> Seq<u8> {                                                                       // "OPAQUE-DeriveKeyPair"
    seq![0x4fu8, 0x50, 0x41, 0x51, 0x55, 0x45, 0x2d, 0x44, 0x65, 0x72, 0x69, 0x76, 0x65, 0x4b, 0x65, 0x79, 0x50, 0x61, 0x69, 0x72]
}
pub open spec fn s_opaque_derive_dh_key_pair() -> Seq<u8> {                                                                    // "OPAQUE-DeriveDiffieHellmanKeyPair"
    seq![0x4fu8, 0x50, 0x41, 0x51, 0x55, 0x45, 0x2d, 0x44, 0x65, 0x72, 0x69, 0x76, 0x65, 0x44, 0x69, 0x66, 0x66, 0x69, 0x65, 0x48, 0x65,
         0x6c, 0x6c, 0x6d, 0x61, 0x6e, 0x4b, 0x65, 0x79, 0x50, 0x61, 0x69, 0x72]
}
pub open spec fn s_derive_key_pair() -> Seq<u8> { seq![0x44u8, 0x65, 0x72, 0x69, 0x76, 0x65, 0x4b, 0x65, 0x79, 0x50, 0x61, 0x69, 0x72] } // "DeriveKeyPair"
pub open spec fn s_oprfv1() -> Seq<u8> { seq![0x4fu8, 0x50, 0x52, 0x46, 0x56, 0x31, 0x2d] }                                     // "OPRFV1-"

// ---- suite lengths ------------------------------------------------------------------------------------
pub open spec fn nn() -> nat { 32 }
pub open spec fn nh<CS: CipherSuite>() -> nat { <OprfHash<CS> as Digest>::OutputSize::n() }
pub open spec fn npk<CS: CipherSuite>() -> nat { <CS::KeGroup as KeGroup>::PkLen::n() }
pub open spec fn nsk<CS: CipherSuite>() -> nat { <CS::KeGroup as KeGroup>::SkLen::n() }
pub open spec fn noe<CS: CipherSuite>() -> nat { <OprfGroup<CS> as Group>::ElemLen::n() }
pub open spec fn nok<CS: CipherSuite>() -> nat { <OprfGroup<CS> as Group>::ScalarLen::n() }

/// I2OSP(len(x), 2) || x
pub open spec fn frame2(x: Seq<u8>) -> Seq<u8> { i2osp(x.len(), 2) + x }

// ---- RFC 9807 6.4.2.1: Expand-Label / Derive-Secret ---------------------------------------------------
/// CustomLabel = I2OSP(Length, 2) || I2OSP(len("OPAQUE-" || Label), 1) || "OPAQUE-" || Label || I2OSP(len(Context), 1) || Context
pub open spec fn rfc_custom_label(length: nat, label: Seq<u8>, context: Seq<u8>) -> Seq<u8> {
    i2osp(length, 2) + i2osp((s_opaque() + label).len(), 1) + s_opaque() + label + i2osp(context.len(), 1) + context
}
pub open spec fn rfc_expand_label<D: Hash>(secret: Seq<u8>, label: Seq<u8>, context: Seq<u8>) -> Seq<u8> {
    D::expand(secret, rfc_custom_label(D::OutputSize::n(), label, context), D::OutputSize::n())
}

// ---- RFC 9807 6.4.2: 3DH transcript and key schedule --------------------------------------------------
/// Preamble with the identities given raw (their 2-byte length prefixes are part of the formula)
pub open spec fn rfc_preamble(context: Seq<u8>, id_u: Seq<u8>, ke1: Seq<u8>, id_s: Seq<u8>, cred_response: Seq<u8>, nonce_s: Seq<u8>, epk_s: Seq<u8>) -> Seq<u8> {
    s_opaquev1() + frame2(context) + frame2(id_u) + ke1 + frame2(id_s) + cred_response + nonce_s + epk_s
}
pub open spec fn rfc_prk<D: Hash>(dh1: Seq<u8>, dh2: Seq<u8>, dh3: Seq<u8>) -> Seq<u8> { D::extract(Seq::<u8>::empty(), dh1 + dh2 + dh3) }
pub open spec fn rfc_handshake_secret<D: Hash>(prk: Seq<u8>, th: Seq<u8>) -> Seq<u8> { rfc_expand_label::<D>(prk, s_handshake_secret(), th) }
pub open spec fn rfc_session_key<D: Hash>(prk: Seq<u8>, th: Seq<u8>) -> Seq<u8> { rfc_expand_label::<D>(prk, s_session_key(), th) }
pub open spec fn rfc_km2<D: Hash>(prk: Seq<u8>, th: Seq<u8>) -> Seq<u8> { rfc_expand_label::<D>(rfc_handshake_secret::<D>(prk, th), s_server_mac(), Seq::<u8>::empty()) }
pub open spec fn rfc_km3<D: Hash>(prk: Seq<u8>, th: Seq<u8>) -> Seq<u8> { rfc_expand_label::<D>(rfc_handshake_secret::<D>(prk, th), s_client_mac(), Seq::<u8>::empty()) }
/// server_mac = MAC(Km2, Hash(preamble))
pub open spec fn rfc_server_mac<D: Hash>(prk: Seq<u8>, preamble: Seq<u8>) -> Seq<u8> { D::hmac(rfc_km2::<D>(prk, D::h(preamble)), D::h(preamble)) }
/// client_mac = MAC(Km3, Hash(preamble || server_mac))
pub open spec fn rfc_client_mac<D: Hash>(prk: Seq<u8>, preamble: Seq<u8>) -> Seq<u8> {
    D::hmac(rfc_km3::<D>(prk, D::h(preamble)), D::h(preamble + rfc_server_mac::<D>(prk, preamble)))
}

// ---- RFC 9497 3.2.1 DeriveKeyPair, as used by DeriveDiffieHellmanKeyPair (RFC 9807 6.4.1) --------------
/// contextString = "OPRFV1-" || I2OSP(mode = 0, 1) || "-" || identifier ; DST = "DeriveKeyPair" || contextString
pub open spec fn rfc_dkp_dst<OC: voprf::CipherSuite>() -> Seq<u8> { s_derive_key_pair() + s_oprfv1() + seq![0u8] + seq![0x2du8] + OC::id() }
/// deriveInput || I2OSP(counter, 1) with info = "OPAQUE-DeriveDiffieHellmanKeyPair"
pub open spec fn rfc_dkp_input(seed: Seq<u8>, counter: int) -> Seq<u8> {
    seed + i2osp(s_opaque_derive_dh_key_pair().len(), 2) + s_opaque_derive_dh_key_pair() + seq![counter as u8]
}
/// counter loop: first counter whose scalar is non-zero; a refusing HashToScalar or 256 zero scalars is DeriveKeyPairError
pub open spec fn rfc_dkp_from<KG: KeGroup, OC: voprf::CipherSuite>(seed: Seq<u8>, counter: int) -> Result<KG::Sk, InternalError>
    decreases 256 - counter
{
    if counter > 255 || counter < 0 { Err(InternalError::OprfError(voprf::Error::DeriveKeyPair)) } else {
        match KG::h2s::<OC::Hash>(rfc_dkp_input(seed, counter), rfc_dkp_dst::<OC>()) {
            Err(_) => Err(InternalError::OprfError(voprf::Error::DeriveKeyPair)),
            Ok(s) => if !KG::sk_is_zero(s) { Ok(s) } else { rfc_dkp_from::<KG, OC>(seed, counter + 1) },
        }
    }
}
pub open spec fn rfc_derive_dh_keypair<KG: KeGroup, OC: voprf::CipherSuite>(seed: Seq<u8>) -> Result<KG::Sk, InternalError> {
    rfc_dkp_from::<KG, OC>(seed, 0)
}
/// (proved) the derived key is non-zero, a failure is never a Custom error
pub proof fn lemma_rfc_dkp_from_nonzero<KG: KeGroup, OC: voprf::CipherSuite>(seed: Seq<u8>, counter: int)
    ensures
        rfc_dkp_from::<KG, OC>(seed, counter) is Ok ==> !KG::sk_is_zero(rfc_dkp_from::<KG, OC>(seed, counter)->Ok_0),
        rfc_dkp_from::<KG, OC>(seed, counter) is Err ==> !(rfc_dkp_from::<KG, OC>(seed, counter)->Err_0 is Custom),
    decreases 256 - counter
{
    if 0 <= counter <= 255 {
        match KG::h2s::<OC::Hash>(rfc_dkp_input(seed, counter), rfc_dkp_dst::<OC>()) {
            Err(_) => {},
            Ok(s) => if KG::sk_is_zero(s) { lemma_rfc_dkp_from_nonzero::<KG, OC>(seed, counter + 1); },
        }
    }
}
pub proof fn lemma_rfc_dkp_nonzero<KG: KeGroup, OC: voprf::CipherSuite>(seed: Seq<u8>)
    ensures
        rfc_derive_dh_keypair::<KG, OC>(seed) is Ok ==> !KG::sk_is_zero(rfc_derive_dh_keypair::<KG, OC>(seed)->Ok_0),
        rfc_derive_dh_keypair::<KG, OC>(seed) is Err ==> !(rfc_derive_dh_keypair::<KG, OC>(seed)->Err_0 is Custom),
{ lemma_rfc_dkp_from_nonzero::<KG, OC>(seed, 0); }

// ---- the NIST blanket impl `impl<G: GroupDigest> KeGroup for G`: its spec functions, stated over the elliptic_curve shim only ----
// (an impl may not refer to functions bounded by the trait it implements: Verus rejects the cycle; the equality with the
//  KeGroup-generic RFC functions is proved below, outside the impl)
pub open spec fn ec_h2s<G: elliptic_curve::GroupDigest, H>(input: Seq<u8>, dst: Seq<u8>) -> Result<G::Sc, InternalError> {
    match G::h2s_xmd::<elliptic_curve::ExpandMsgXmd<H>>(input, dst) {
        Some(s) => if elliptic_curve::Field::zero(&s) { Err(InternalError::HashToScalar) } else { Ok(s) },
        None => Err(InternalError::HashToScalar),
    }
}
pub open spec fn ec_dkp_from<G: elliptic_curve::GroupDigest, OC: voprf::CipherSuite>(seed: Seq<u8>, counter: int) -> Result<G::Sc, InternalError>
    decreases 256 - counter
{
    if counter > 255 || counter < 0 { Err(InternalError::OprfError(voprf::Error::DeriveKeyPair)) } else {
        match ec_h2s::<G, OC::Hash>(rfc_dkp_input(seed, counter), rfc_dkp_dst::<OC>()) {
            Err(_) => Err(InternalError::OprfError(voprf::Error::DeriveKeyPair)),
            Ok(s) => if !elliptic_curve::Field::zero(&s) { Ok(s) } else { ec_dkp_from::<G, OC>(seed, counter + 1) },
        }
    }
}
pub proof fn lemma_ec_dkp_nonzero<G: elliptic_curve::GroupDigest, OC: voprf::CipherSuite>(seed: Seq<u8>, counter: int)
    ensures
        ec_dkp_from::<G, OC>(seed, counter) is Ok ==> !elliptic_curve::Field::zero(&ec_dkp_from::<G, OC>(seed, counter)->Ok_0),
        ec_dkp_from::<G, OC>(seed, counter) is Err ==> !(ec_dkp_from::<G, OC>(seed, counter)->Err_0 is Custom),
    decreases 256 - counter
{
    if 0 <= counter <= 255 {
        match ec_h2s::<G, OC::Hash>(rfc_dkp_input(seed, counter), rfc_dkp_dst::<OC>()) {
            Err(_) => {},
            Ok(s) => if elliptic_curve::Field::zero(&s) { lemma_ec_dkp_nonzero::<G, OC>(seed, counter + 1); },
        }
    }
}
/// (proved) for the NIST impl, derive_spec IS the RFC's DeriveDiffieHellmanKeyPair instantiated with this group
pub proof fn lemma_ec_dkp_is_rfc<G: elliptic_curve::GroupDigest, OC: voprf::CipherSuite>(seed: Seq<u8>, counter: int)
    ensures ec_dkp_from::<G, OC>(seed, counter) == rfc_dkp_from::<G, OC>(seed, counter)
    decreases 256 - counter
{
    if 0 <= counter <= 255 {
        match ec_h2s::<G, OC::Hash>(rfc_dkp_input(seed, counter), rfc_dkp_dst::<OC>()) {
            Err(_) => {},
            Ok(s) => if elliptic_curve::Field::zero(&s) { lemma_ec_dkp_is_rfc::<G, OC>(seed, counter + 1); },
        }
    }
}

// ---- RFC 9807 4.1: envelope ------------------------------------------------------------------------------
pub open spec fn rfc_auth_key<CS: CipherSuite>(rp: Seq<u8>, nonce: Seq<u8>) -> Seq<u8> { <OprfHash<CS> as Digest>::expand(rp, nonce + s_auth_key(), nh::<CS>()) }
pub open spec fn rfc_export_key<CS: CipherSuite>(rp: Seq<u8>, nonce: Seq<u8>) -> Seq<u8> { <OprfHash<CS> as Digest>::expand(rp, nonce + s_export_key(), nh::<CS>()) }
/// seed for the client's static key; this repository uses Nseed = Nsk of the key-exchange group
pub open spec fn rfc_client_seed<CS: CipherSuite>(rp: Seq<u8>, nonce: Seq<u8>) -> Seq<u8> { <OprfHash<CS> as Digest>::expand(rp, nonce + s_private_key(), nsk::<CS>()) }
pub open spec fn rfc_client_sk<CS: CipherSuite>(rp: Seq<u8>, nonce: Seq<u8>) -> Result<<CS::KeGroup as KeGroup>::Sk, InternalError> {
    <CS::KeGroup as KeGroup>::derive_spec::<CS::OprfCs>(rfc_client_seed::<CS>(rp, nonce))
}
/// CleartextCredentials = server_public_key || I2OSP(len(server_identity),2) || server_identity || I2OSP(len(client_identity),2) || client_identity
pub open spec fn rfc_cleartext_credentials(pk_s: Seq<u8>, id_s: Seq<u8>, id_u: Seq<u8>) -> Seq<u8> { pk_s + frame2(id_s) + frame2(id_u) }
/// auth_tag = MAC(auth_key, envelope_nonce || cleartext_credentials)
pub open spec fn rfc_auth_tag<CS: CipherSuite>(rp: Seq<u8>, nonce: Seq<u8>, pk_s: Seq<u8>, id_s: Seq<u8>, id_u: Seq<u8>) -> Seq<u8> {
    <OprfHash<CS> as Digest>::hmac(rfc_auth_key::<CS>(rp, nonce), nonce + rfc_cleartext_credentials(pk_s, id_s, id_u))
}

// ---- RFC 9807 5 / 6.3: OPRF key, randomized password, masking ------------------------------------------------
/// seed = Expand(oprf_seed, credential_identifier || "OprfKey", Nok); (oprf_key, _) = DeriveKeyPair(seed, "OPAQUE-DeriveKeyPair")
pub open spec fn rfc_oprf_key<CS: CipherSuite>(oprf_seed: Seq<u8>, cred_id: Seq<u8>) -> Result<<OprfGroup<CS> as Group>::Scalar, voprf::Error> {
    voprf::derive_key_spec::<CS::OprfCs>(<OprfHash<CS> as Digest>::expand(oprf_seed, cred_id + s_oprf_key(), nok::<CS>()), s_opaque_derive_key_pair())
}
/// oprf_output = Finalize(password, blind, evaluated_element)   (RFC 9497 3.3.1)
pub open spec fn rfc_oprf_output<CS: CipherSuite>(pw: Seq<u8>, blind: <OprfGroup<CS> as Group>::Scalar, z: <OprfGroup<CS> as Group>::Elem) -> Seq<u8> {
    <OprfHash<CS> as Digest>::h(voprf::finalize_input::<CS::OprfCs>(pw, <OprfGroup<CS> as Group>::smul(z, <OprfGroup<CS> as Group>::inv(blind))))
}
/// randomized_password = Extract("", oprf_output || Stretch(oprf_output))
pub open spec fn rfc_randomized_pwd<CS: CipherSuite>(y: Seq<u8>, stretched: Seq<u8>) -> Seq<u8> { <OprfHash<CS> as Digest>::extract(Seq::<u8>::empty(), y + stretched) }
pub open spec fn rfc_masking_key<CS: CipherSuite>(rp: Seq<u8>) -> Seq<u8> { <OprfHash<CS> as Digest>::expand(rp, s_masking_key(), nh::<CS>()) }
/// credential_response_pad = Expand(masking_key, masking_nonce || "CredentialResponsePad", Npk + Nn + Nm)
pub open spec fn rfc_pad<CS: CipherSuite>(masking_key: Seq<u8>, masking_nonce: Seq<u8>) -> Seq<u8> {
    <OprfHash<CS> as Digest>::expand(masking_key, masking_nonce + s_credential_response_pad(), npk::<CS>() + nn() + nh::<CS>())
}
pub open spec fn xor(a: Seq<u8>, b: Seq<u8>) -> Seq<u8> { Seq::new(a.len(), |i: int| a[i] ^ b[i]) }

// ---- lemmas about the oracle's helpers (proved) ------------------------------------------------------------------
pub proof fn lemma_i2osp1(n: nat)
    ensures i2osp(n, 1) == seq![(n % 256) as u8], fits(n, 1) <==> n <= 255
{
    reveal_with_fuel(i2osp, 3); reveal_with_fuel(fits, 3);
    assert(i2osp(n, 1) =~= seq![(n % 256) as u8]);
}
pub proof fn lemma_i2osp2(n: nat)
    ensures
        n <= 65535 ==> i2osp(n, 2) == seq![(n / 256) as u8, (n % 256) as u8],
        fits(n, 2) <==> n <= 65535,
        i2osp(n, 2).len() == 2,
{
    reveal_with_fuel(i2osp, 4); reveal_with_fuel(fits, 4);
    assert(i2osp(n, 2) =~= seq![((n / 256) % 256) as u8, (n % 256) as u8]);
    if n <= 65535 { assert((n / 256) % 256 == n / 256); }
    assert(n / 256 / 256 == 0 <==> n <= 65535);
}
pub proof fn lemma_xor_zip_full(a: Seq<u8>, b: Seq<u8>)
    requires a.len() == b.len()
    ensures xor_zip(a, b) == xor(a, b)
{ assert(xor_zip(a, b) =~= xor(a, b)); }
pub proof fn lemma_xor_involution(pad: Seq<u8>, x: Seq<u8>)
    requires pad.len() == x.len()
    ensures xor(pad, xor(pad, x)) == x, xor(pad, x).len() == pad.len()
{
    assert forall|i: int| 0 <= i < pad.len() implies pad[i] ^ (pad[i] ^ x[i]) == x[i] by {
        let p = pad[i]; let y = x[i];
        assert(p ^ (p ^ y) == y) by (bit_vector);
    }
    assert(xor(pad, xor(pad, x)) =~= x);
}

// ---- error conversion (specification of errors.rs `into_custom`) ----------------------------------------------
pub open spec fn ie_into_custom<T>(e: InternalError) -> InternalError<T> {
    match e {
        InternalError::Custom(_) => arbitrary(),
        InternalError::InvalidByteSequence => InternalError::InvalidByteSequence,
        InternalError::SizeError { name, len, actual_len } => InternalError::SizeError { name, len, actual_len },
        InternalError::PointError => InternalError::PointError,
        InternalError::HashToScalar => InternalError::HashToScalar,
        InternalError::HkdfError => InternalError::HkdfError,
        InternalError::HmacError => InternalError::HmacError,
        InternalError::KsfError => InternalError::KsfError,
        InternalError::SealOpenHmacError => InternalError::SealOpenHmacError,
        InternalError::IncompatibleEnvelopeModeError => InternalError::IncompatibleEnvelopeModeError,
        InternalError::OprfError(e) => InternalError::OprfError(e),
        InternalError::OprfInternalError(e) => InternalError::OprfInternalError(e),
    }
}
pub open spec fn pe_into_custom<T>(e: ProtocolError) -> ProtocolError<T> {
    match e {
        ProtocolError::LibraryError(ie) => ProtocolError::LibraryError(ie_into_custom::<T>(ie)),
        ProtocolError::InvalidLoginError => ProtocolError::InvalidLoginError,
        ProtocolError::SerializationError => ProtocolError::SerializationError,
        ProtocolError::ReflectedValueError => ProtocolError::ReflectedValueError,
        ProtocolError::IdentityGroupElementError => ProtocolError::IdentityGroupElementError,
    }
}
/// type invariant of `ProtocolError<Infallible>`: no `Custom(Infallible)` value exists
pub open spec fn pe_nocustom(e: ProtocolError) -> bool {
    match e { ProtocolError::LibraryError(ie) => !(ie is Custom), _ => true }
}

// ---- key pairs drawn from the caller's tape -------------------------------------------------------------------------
/// the key pair `KeyPair::generate_random` draws at tape position `pos`: seed = next Nsk bytes, sk = DeriveDiffieHellmanKeyPair(seed)
pub open spec fn kp_ok<KG: KeGroup, OC: voprf::CipherSuite>(id: int, pos: nat) -> bool { KG::derive_spec::<OC>(tape(id, pos, KG::SkLen::n())) is Ok }
pub open spec fn kp_sk<KG: KeGroup, OC: voprf::CipherSuite>(id: int, pos: nat) -> KG::Sk { KG::derive_spec::<OC>(tape(id, pos, KG::SkLen::n()))->Ok_0 }

// ---- the preamble as the code assembles it (identities arrive already framed) -----------------------------------------
pub open spec fn preamble_flat(context: Seq<u8>, id_u_framed: Seq<u8>, ke1: Seq<u8>, id_s_framed: Seq<u8>, cred_response: Seq<u8>, nonce_s: Seq<u8>, epk_s: Seq<u8>) -> Seq<u8> {
    s_opaquev1() + frame2(context) + id_u_framed + ke1 + id_s_framed + cred_response + nonce_s + epk_s
}
pub proof fn lemma_preamble_flat(context: Seq<u8>, id_u: Seq<u8>, ke1: Seq<u8>, id_s: Seq<u8>, l2: Seq<u8>, nonce_s: Seq<u8>, epk_s: Seq<u8>)
    ensures rfc_preamble(context, id_u, ke1, id_s, l2, nonce_s, epk_s) == preamble_flat(context, frame2(id_u), ke1, frame2(id_s), l2, nonce_s, epk_s)
{}
/// client side of 3DH (RFC 9807 6.4.3): dh1 = DH(client_eph_sk, server_eph_pk), dh2 = DH(client_eph_sk, server_static_pk), dh3 = DH(client_static_sk, server_eph_pk)
pub open spec fn ke3_prk<D: Hash, KG: KeGroup>(ke2: Ke2Message<D, KG>, st: Ke1State<KG>, server_s_pk: PublicKey<KG>, client_s_sk: PrivateKey<KG>) -> Seq<u8> {
    rfc_prk::<D>(KG::dh(ke2.server_e_pk.0, st.client_e_sk.0), KG::dh(server_s_pk.0, st.client_e_sk.0), KG::dh(ke2.server_e_pk.0, client_s_sk.0))
}
pub open spec fn ke3_pre<D: Hash, KG: KeGroup>(context: Seq<u8>, id_u_framed: Seq<u8>, creq: Seq<u8>, id_s_framed: Seq<u8>, l2: Seq<u8>, ke2: Ke2Message<D, KG>) -> Seq<u8> {
    preamble_flat(context, id_u_framed, creq, id_s_framed, l2, ke2.server_nonce@, KG::ser_pk(ke2.server_e_pk.0))
}

// ---- suite length facts, bundled ---------------------------------------------------------------------------------------
pub proof fn lemma_lens<CS: CipherSuite>()
    ensures
        wf_len::<<OprfHash<CS> as Digest>::OutputSize>(), 32 <= nh::<CS>() <= 255,
        wf_len::<<CS::KeGroup as KeGroup>::PkLen>(), wf_len::<<CS::KeGroup as KeGroup>::SkLen>(), 0 < npk::<CS>() <= 255, 0 < nsk::<CS>() <= 255,
        wf_len::<<OprfGroup<CS> as Group>::ElemLen>(), wf_len::<<OprfGroup<CS> as Group>::ScalarLen>(), 0 < noe::<CS>() <= 255, 0 < nok::<CS>() <= 255,
{
    <OprfHash<CS> as Digest>::lemma_hash_len();
    <CS::KeGroup as KeGroup>::lemma_kg_lens();
    <OprfGroup<CS> as Group>::lemma_group_lens();
}

// ---- effective identities (RFC 9807 4.1: an absent identity is that party's public key) -----------------------------------
pub open spec fn eff_id(id: Option<&[u8]>, pk: Seq<u8>) -> Seq<u8> { match id { Some(c) => c@, None => pk } }
pub open spec fn ids_fit(ids: Identifiers) -> bool {
    (ids.client is Some ==> ids.client->0@.len() <= 65535) && (ids.server is Some ==> ids.server->0@.len() <= 65535)
}
/// the envelope a client with randomized password `rp` seals at `nonce` (RFC 9807 4.1.2 Store)
pub open spec fn rfc_envelope_tag<CS: CipherSuite>(rp: Seq<u8>, nonce: Seq<u8>, server_s_pk: Seq<u8>, ids: Identifiers) -> Seq<u8> {
    let pk_c = <CS::KeGroup as KeGroup>::ser_pk(<CS::KeGroup as KeGroup>::pk_of(rfc_client_sk::<CS>(rp, nonce)->Ok_0));
    rfc_auth_tag::<CS>(rp, nonce, server_s_pk, eff_id(ids.server, server_s_pk), eff_id(ids.client, pk_c))
}

// ---- message layouts (RFC 9807 section 6.1 / 5.1) ------------------------------------------------------------------------------
/// masked_response as transmitted: Npk + Nn + Nm bytes (the struct splits them into three arrays)
pub open spec fn masked_ser<CS: CipherSuite>(m: MaskedResponse<CS>) -> Seq<u8> { m.nonce@ + m.hash@ + m.pk@ }
/// offset of the AuthResponse (KE2) inside a serialized credential response
pub open spec fn cr_off_ke2<CS: CipherSuite>() -> int { (noe::<CS>() + 32 + (32 + nh::<CS>() + npk::<CS>())) as int }

// ---- client-side derivations (RFC 9807 5.2.3 / 6.3.2.2) ----------------------------------------------------------------------------
/// the key-stretching instance in effect: the caller's, or the suite's default
pub open spec fn ksf_eff<CS: CipherSuite>(ksf: Option<&CS::Ksf>) -> CS::Ksf { match ksf { Some(k) => *k, None => ksf_default_spec::<CS::Ksf>() } }
/// randomized_password of (password, blind, evaluated element, KSF): Err when the password is unencodable or the KSF fails
pub open spec fn rp_of<CS: CipherSuite>(pw: Seq<u8>, blind: <OprfGroup<CS> as Group>::Scalar, z: <OprfGroup<CS> as Group>::Elem, ksf: Option<&CS::Ksf>) -> Result<Seq<u8>, ()> {
    if pw.len() > 65535 { Err(()) } else {
        let y = rfc_oprf_output::<CS>(pw, blind, z);
        match ksf_eff::<CS>(ksf).ksf_spec(y) { Ok(st) => Ok(rfc_randomized_pwd::<CS>(y, st)), Err(_) => Err(()) }
    }
}
/// xor(credential_response_pad, masked_response), split as server_public_key || envelope_nonce || auth_tag
pub open spec fn unmasked<CS: CipherSuite>(mk: Seq<u8>, mnonce: Seq<u8>, m: MaskedResponse<CS>) -> Seq<u8> { xor(rfc_pad::<CS>(mk, mnonce), masked_ser(m)) }
pub open spec fn unmasked_pk<CS: CipherSuite>(mk: Seq<u8>, mnonce: Seq<u8>, m: MaskedResponse<CS>) -> Seq<u8> { unmasked::<CS>(mk, mnonce, m).subrange(0, npk::<CS>() as int) }
pub open spec fn unmasked_nonce<CS: CipherSuite>(mk: Seq<u8>, mnonce: Seq<u8>, m: MaskedResponse<CS>) -> Seq<u8> { unmasked::<CS>(mk, mnonce, m).subrange(npk::<CS>() as int, npk::<CS>() as int + 32) }
pub open spec fn unmasked_tag<CS: CipherSuite>(mk: Seq<u8>, mnonce: Seq<u8>, m: MaskedResponse<CS>) -> Seq<u8> {
    unmasked::<CS>(mk, mnonce, m).subrange(npk::<CS>() as int + 32, npk::<CS>() as int + 32 + nh::<CS>() as int)
}
pub open spec fn cl_ctx_fit(c: Option<&[u8]>) -> bool { c is Some ==> c->0@.len() <= 65535 }
pub open spec fn ctx_of(c: Option<&[u8]>) -> Seq<u8> { match c { Some(c) => c@, None => Seq::<u8>::empty() } }
/// everything the client derives in its finish step, as functions of (state, password, response, parameters)
pub open spec fn cl_rp<CS: CipherSuite>(st: ClientLogin<CS>, pw: Seq<u8>, resp: CredentialResponse<CS>, p: ClientLoginFinishParameters<CS>) -> Seq<u8> {
    rp_of::<CS>(pw, st.oprf_client.blind_of(), resp.evaluation_element.v(), p.ksf)->Ok_0
}
pub open spec fn cl_env_nonce<CS: CipherSuite>(st: ClientLogin<CS>, pw: Seq<u8>, resp: CredentialResponse<CS>, p: ClientLoginFinishParameters<CS>) -> Seq<u8> {
    unmasked_nonce::<CS>(rfc_masking_key::<CS>(cl_rp::<CS>(st, pw, resp, p)), resp.masking_nonce@, resp.masked_response)
}
pub open spec fn cl_server_pk<CS: CipherSuite>(st: ClientLogin<CS>, pw: Seq<u8>, resp: CredentialResponse<CS>, p: ClientLoginFinishParameters<CS>) -> Option<<CS::KeGroup as KeGroup>::Pk> {
    <CS::KeGroup as KeGroup>::de_pk(unmasked_pk::<CS>(rfc_masking_key::<CS>(cl_rp::<CS>(st, pw, resp, p)), resp.masking_nonce@, resp.masked_response))
}
pub open spec fn cl_client_sk<CS: CipherSuite>(st: ClientLogin<CS>, pw: Seq<u8>, resp: CredentialResponse<CS>, p: ClientLoginFinishParameters<CS>) -> <CS::KeGroup as KeGroup>::Sk {
    rfc_client_sk::<CS>(cl_rp::<CS>(st, pw, resp, p), cl_env_nonce::<CS>(st, pw, resp, p))->Ok_0
}
pub open spec fn cl_prk<CS: CipherSuite>(st: ClientLogin<CS>, pw: Seq<u8>, resp: CredentialResponse<CS>, p: ClientLoginFinishParameters<CS>) -> Seq<u8> {
    let esk = st.ke1_state.client_e_sk.0;
    rfc_prk::<OprfHash<CS>>(
        <CS::KeGroup as KeGroup>::dh(resp.ke2_message.server_e_pk.0, esk),
        <CS::KeGroup as KeGroup>::dh(cl_server_pk::<CS>(st, pw, resp, p)->0, esk),
        <CS::KeGroup as KeGroup>::dh(resp.ke2_message.server_e_pk.0, cl_client_sk::<CS>(st, pw, resp, p)))
}
pub open spec fn cl_preamble<CS: CipherSuite>(st: ClientLogin<CS>, pw: Seq<u8>, resp: CredentialResponse<CS>, p: ClientLoginFinishParameters<CS>) -> Seq<u8> {
    let spk_bytes = <CS::KeGroup as KeGroup>::ser_pk(cl_server_pk::<CS>(st, pw, resp, p)->0);
    let cpk_bytes = <CS::KeGroup as KeGroup>::ser_pk(<CS::KeGroup as KeGroup>::pk_of(cl_client_sk::<CS>(st, pw, resp, p)));
    let creq = <OprfGroup<CS> as Group>::ser_elem(st.credential_request.blinded_element.v()) + st.credential_request.ke1_message.client_nonce@
        + <CS::KeGroup as KeGroup>::ser_pk(st.credential_request.ke1_message.client_e_pk.0);
    let l2 = <OprfGroup<CS> as Group>::ser_elem(resp.evaluation_element.v()) + resp.masking_nonce@ + masked_ser(resp.masked_response);
    rfc_preamble(ctx_of(p.context), eff_id(p.identifiers.client, cpk_bytes), creq, eff_id(p.identifiers.server, spk_bytes), l2,
        resp.ke2_message.server_nonce@, <CS::KeGroup as KeGroup>::ser_pk(resp.ke2_message.server_e_pk.0))
}
/// envelope gate (RFC 9807 4.1.3 Recover): the unmasked bytes decode to a server key and carry an auth_tag that verifies under the
/// key derived from THIS password, over THIS server key and THESE identities
pub open spec fn cl_env_ok<CS: CipherSuite>(st: ClientLogin<CS>, pw: Seq<u8>, resp: CredentialResponse<CS>, p: ClientLoginFinishParameters<CS>) -> bool {
    let rp = cl_rp::<CS>(st, pw, resp, p);
    let mk = rfc_masking_key::<CS>(rp);
    let nonce = cl_env_nonce::<CS>(st, pw, resp, p);
    &&& cl_server_pk::<CS>(st, pw, resp, p) is Some
    &&& rfc_client_sk::<CS>(rp, nonce) is Ok
    &&& ids_fit(p.identifiers)
    &&& unmasked_tag::<CS>(mk, resp.masking_nonce@, resp.masked_response)
          == rfc_envelope_tag::<CS>(rp, nonce, <CS::KeGroup as KeGroup>::ser_pk(cl_server_pk::<CS>(st, pw, resp, p)->0), p.identifiers)
}
/// server-MAC gate (RFC 9807 6.4.3 AuthClientFinalize): the MAC in the response verifies over the transcript of THIS request and THIS response
pub open spec fn cl_mac_ok<CS: CipherSuite>(st: ClientLogin<CS>, pw: Seq<u8>, resp: CredentialResponse<CS>, p: ClientLoginFinishParameters<CS>) -> bool {
    cl_ctx_fit(p.context)
        && resp.ke2_message.mac@ == rfc_server_mac::<OprfHash<CS>>(cl_prk::<CS>(st, pw, resp, p), cl_preamble::<CS>(st, pw, resp, p))
}
/// the exact acceptance condition of the client's finish step
pub open spec fn cl_accepts<CS: CipherSuite>(st: ClientLogin<CS>, pw: Seq<u8>, resp: CredentialResponse<CS>, p: ClientLoginFinishParameters<CS>) -> bool {
    &&& st.credential_request.blinded_element.v() != resp.evaluation_element.v()
    &&& rp_of::<CS>(pw, st.oprf_client.blind_of(), resp.evaluation_element.v(), p.ksf) is Ok
    &&& cl_env_ok::<CS>(st, pw, resp, p)
    &&& cl_mac_ok::<CS>(st, pw, resp, p)
}

// ---- server login start (RFC 9807 6.3.2.1 / 6.4.4) -----------------------------------------------------------------------------------
/// tape bytes consumed before the masking nonce: Nh for the fake masking key when there is no record
pub open spec fn sls_off<CS: CipherSuite>(pf: Option<ServerRegistration<CS>>) -> nat { match pf { Some(_) => 0, None => nh::<CS>() } }
/// the record in effect (RFC 9807 6.3.2.1 / section 10.9 "client enumeration"): the stored one, or the fake one —
/// fake client public key, masking key = the next Nh tape bytes, all-zero envelope
pub open spec fn zeros(n: nat) -> Seq<u8> { Seq::new(n, |i: int| 0u8) }
pub open spec fn sls_mk<CS: CipherSuite>(pf: Option<ServerRegistration<CS>>, id: int, pos: nat) -> Seq<u8> {
    match pf { Some(x) => x.0.masking_key@, None => tape(id, pos, nh::<CS>()) }
}
pub open spec fn sls_cpk<CS: CipherSuite, S: SecretKey<CS::KeGroup>>(setup: ServerSetup<CS, S>, pf: Option<ServerRegistration<CS>>) -> <CS::KeGroup as KeGroup>::Pk {
    match pf { Some(x) => x.0.client_s_pk.0, None => setup.fake_keypair.pk.0 }
}
pub open spec fn sls_env<CS: CipherSuite>(pf: Option<ServerRegistration<CS>>) -> Seq<u8> {
    match pf { Some(x) => x.0.envelope.nonce@ + x.0.envelope.hmac@, None => zeros(32 + nh::<CS>()) }
}
pub broadcast proof fn lemma_all_zero_concat(a: Seq<u8>, b: Seq<u8>)
    requires all_zero(a), all_zero(b)
    ensures #[trigger] (a + b) == zeros(a.len() + b.len())
{ assert((a + b) =~= zeros(a.len() + b.len())); }
pub open spec fn sls_inputs_ok<CS: CipherSuite, S: SecretKey<CS::KeGroup>>(setup: ServerSetup<CS, S>, pf: Option<ServerRegistration<CS>>, cred_id: Seq<u8>, p: ServerLoginStartParameters) -> bool {
    cl_ctx_fit(p.context) && ids_fit(p.identifiers) && rfc_oprf_key::<CS>(setup.oprf_seed@, cred_id) is Ok
}
/// an OPRF element encoding that opaque-ke accepts: decodes, and re-encodes to itself
pub open spec fn elem_canonical<CS: CipherSuite>(b: Seq<u8>) -> bool {
    <OprfGroup<CS> as Group>::de_elem(b) is Some && <OprfGroup<CS> as Group>::ser_elem(<OprfGroup<CS> as Group>::de_elem(b)->0) == b
}

// ---- server login start: the values of one call as functions of (setup, record, request, parameters, tape) --------------------------
pub open spec fn sls_esk<CS: CipherSuite>(pf: Option<ServerRegistration<CS>>, id: int, pos: nat) -> <CS::KeGroup as KeGroup>::Sk {
    kp_sk::<CS::KeGroup, CS::OprfCs>(id, pos + sls_off::<CS>(pf) + 32)
}
pub open spec fn sls_snonce<CS: CipherSuite>(pf: Option<ServerRegistration<CS>>, id: int, pos: nat) -> Seq<u8> {
    tape(id, pos + sls_off::<CS>(pf) + 32 + nsk::<CS>(), 32)
}
/// server side of 3DH (RFC 9807 6.4.4): dh1 = DH(server_eph_sk, client_eph_pk), dh2 = DH(server_static_sk, client_eph_pk), dh3 = DH(server_eph_sk, client_static_pk)
pub open spec fn sls_prk<CS: CipherSuite, S: SecretKey<CS::KeGroup>>(setup: ServerSetup<CS, S>, pf: Option<ServerRegistration<CS>>, req: CredentialRequest<CS>, id: int, pos: nat) -> Seq<u8> {
    let esk = sls_esk::<CS>(pf, id, pos);
    rfc_prk::<OprfHash<CS>>(<CS::KeGroup as KeGroup>::dh(req.ke1_message.client_e_pk.0, esk), setup.keypair.sk.dh_res(req.ke1_message.client_e_pk)->Ok_0,
        <CS::KeGroup as KeGroup>::dh(sls_cpk::<CS, S>(setup, pf), esk))
}
pub open spec fn sls_pre<CS: CipherSuite, S: SecretKey<CS::KeGroup>>(setup: ServerSetup<CS, S>, pf: Option<ServerRegistration<CS>>, req: CredentialRequest<CS>,
        p: ServerLoginStartParameters, resp: CredentialResponse<CS>, id: int, pos: nat) -> Seq<u8> {
    let spk_bytes = <CS::KeGroup as KeGroup>::ser_pk(setup.keypair.sk.pk_res()->Ok_0.0);
    let creq = <OprfGroup<CS> as Group>::ser_elem(req.blinded_element.v()) + req.ke1_message.client_nonce@ + <CS::KeGroup as KeGroup>::ser_pk(req.ke1_message.client_e_pk.0);
    let l2 = <OprfGroup<CS> as Group>::ser_elem(resp.evaluation_element.v()) + resp.masking_nonce@ + masked_ser(resp.masked_response);
    rfc_preamble(ctx_of(p.context), eff_id(p.identifiers.client, <CS::KeGroup as KeGroup>::ser_pk(sls_cpk::<CS, S>(setup, pf))), creq, eff_id(p.identifiers.server, spk_bytes), l2,
        sls_snonce::<CS>(pf, id, pos), <CS::KeGroup as KeGroup>::ser_pk(<CS::KeGroup as KeGroup>::pk_of(sls_esk::<CS>(pf, id, pos))))
}
